// C20 -- "The shipped URI grammar's top-level rules (URI, URI-reference, absolute-URI, and the
// IPv4/IPv6 literal rules), followed by end of input, accept a byte string if and only if it is
// derivable from the corresponding RFC 3986 production; a global failure counts as rejection and
// no other kind of exception occurs."
//
// Library side : parse< seq< uri::X, eof > >( memory_input<>( p, p + n, "src" ) ) in try/catch.
// Reference    : lang/uri_ref.hpp, a set-of-end-positions (full backtracking, language-exact)
//                evaluation of RFC 3986 Appendix A, written from the RFC.
//
// Every domain below is ENUMERATED COMPLETELY (no sampling); the case index of a domain is the
// odometer value of the string, shard k processes the indices with  global_index % nshards == k.
//
//   D1  all strings of length 0..5 (quick) / 0..6 (thorough) over the 22 class representatives
//          a g v 0 1 2 5 6 9 . : / ? # [ ] @ % ! - + SPACE            x all five rules
//   D1r all strings of length 6 (quick) / 7 (thorough) over the reduced 16  a g v 0 1 . : / ? # [ ] @ % - +
//   D2a dotted octet patterns: 1..5 slots joined by ".", each slot one of the 16 values
//          (empty) 0 9 10 99 100 199 200 249 250 255 256 260 00 01 1a     (1 118 480 strings)
//   D2b all strings of <= 7 (quick) / <= 8 (thorough) tokens over { 0 1 25 255 256 01 a . }
//       D2a and D2b strings s are run in six contexts:
//          IPv4address s | URI_reference "//"s | absolute_URI "a://"s"/" | URI "a://u@"s":8?q"
//          | IPv6address "::"s | URI_reference "//[::"s"]"
//   D3  all strings of <= 8 (quick) / <= 9 (thorough) tokens over the 9 IPv6 tokens
//          1  abcd  12345  :  ::  1.2.3.4  255.255.255.255  1.2.3.256  1:
//       against IPv6address (8 tokens reach the full form 1:1:1:1:1:1:1:1 and every "::" alternative)
//   D3b all strings of <= 6 (quick) / <= 8 (thorough) of the same tokens as URI_reference "//["s"]"
//       and (thorough) all of <= 7 tokens as URI "a://["s"]:8/"   (shorter: almost every case ends in a thrown parse_error)
//   Strings longer than 126 bytes (the capacity of the reference's position sets) are skipped and counted in
//   "skipped_too_long"; this only concerns 19 strings of D3 thorough (nine tokens, at least eight of them 255.255.255.255).
//   D4  all single edits (delete a byte, replace a byte by / insert at every position each of the
//       30 edit bytes) of a corpus of valid URIs, references and address literals taken from
//       RFC 3986 sections 1.1.2, 3, 5.4 and 6.2 (+ one literal per IPv6address alternative) x all five rules;
//       thorough: additionally all double edits of the corpus entries of length <= 12
//
// Each library run uses an exact-size malloc'ed buffer without terminator.  A second run uses the
// same bytes followed by a poison tail ("1111" + NULs) that lies OUTSIDE [begin,end): a correct
// parser never looks at it.  If exact / poison / NUL-tail runs differ, the outcome depends on bytes
// beyond the end of the input and is reported under its own signature.
#include <cstdio>
#include <cstdlib>
#include <cstring>
#include <exception>
#include <string>
#include <vector>

#include <tao/pegtl.hpp>
#include <tao/pegtl/contrib/uri.hpp>

#include "engine/common.hpp"
#include "lang/uri_ref.hpp"

namespace pegtl = tao::pegtl;

namespace
{
   enum Outcome
   {
      REJECT = 0,   // local failure
      ACCEPT = 1,
      GLOBAL = 2,   // tao::pegtl::parse_error  (counts as rejection)
      OTHER_STD = 3,  // some other std::exception
      OTHER = 4       // something else was thrown
   };

   const char* outcome_name( int o )
   {
      static const char* n[] = { "reject", "accept", "reject (global failure)", "std::exception", "unknown exception" };
      return n[ o ];
   }

   std::string g_what;

   template< typename Rule >
   int run( const char* b, std::size_t n )
   {
      try {
         pegtl::memory_input<> in( b, b + n, "src" );
         return pegtl::parse< pegtl::seq< Rule, pegtl::eof > >( in ) ? ACCEPT : REJECT;
      }
      catch( const pegtl::parse_error& ) {
         return GLOBAL;
      }
      catch( const std::exception& e ) {
         g_what = e.what();
         return OTHER_STD;
      }
      catch( ... ) {
         g_what = "?";
         return OTHER;
      }
   }

   int run_rule( int rule, const char* b, std::size_t n )
   {
      switch( rule ) {
         case uriref::R_URI: return run< pegtl::uri::URI >( b, n );
         case uriref::R_URI_reference: return run< pegtl::uri::URI_reference >( b, n );
         case uriref::R_absolute_URI: return run< pegtl::uri::absolute_URI >( b, n );
         case uriref::R_IPv4address: return run< pegtl::uri::IPv4address >( b, n );
         case uriref::R_IPv6address: return run< pegtl::uri::IPv6address >( b, n );
      }
      return REJECT;
   }

   // exact-size buffers, one per length, each malloc'ed with exactly n bytes
   char* exact_buffer( std::size_t n )
   {
      static std::vector< char* > bufs;
      if( bufs.size() <= n ) bufs.resize( n + 1, nullptr );
      if( !bufs[ n ] ) bufs[ n ] = static_cast< char* >( std::malloc( n ? n : 1 ) );
      return bufs[ n ];
   }

   int lib_exact( int rule, const std::string& s )
   {
      char* b = exact_buffer( s.size() );
      std::memcpy( b, s.data(), s.size() );
      return run_rule( rule, b, s.size() );
   }

   // input followed by a tail that is NOT part of the input
   int lib_tail( int rule, const std::string& s, const char* tail, std::size_t tail_len )
   {
      static char guard[ 1024 ];
      if( s.size() + 64 > sizeof guard ) return lib_exact( rule, s );
      std::memcpy( guard, s.data(), s.size() );
      std::memset( guard + s.size(), 0, 64 );
      std::memcpy( guard + s.size(), tail, tail_len );
      return run_rule( rule, guard, s.size() );
   }

   uriref::Matcher M;
   const long g_cap = std::getenv( "VF_CAP" ) ? std::atol( std::getenv( "VF_CAP" ) ) : 3;  // V lines printed per signature
   bool g_sampled[ uriref::R_count ] = {};

   bool is_regname_char( unsigned char c )
   {
      return uriref::Matcher::is_unreserved( c ) || uriref::Matcher::is_sub_delim( c ) || c == '%';
   }

   int lib_exact( int rule, const std::string& s );

   // Mechanical classification of "library rejects, RFC derives":
   // is there a position h where `host` may start at which the longest RFC IPv4address is directly followed by a further
   // reg-name character -- AND does the disagreement disappear when the first digit of that address is replaced by the
   // letter 'g' (which keeps the host a reg-name of the same shape but can no longer be mistaken for an IPv4address)?
   bool ipv4_prefix_host( int rule, const std::string& s )
   {
      const uriref::PosSet hs = M.host_starts;
      bool found = false;
      for( unsigned h = 0; !found && h < s.size(); ++h ) {
         if( !( hs & uriref::bit( h ) ) ) continue;
         const int e = uriref::highest( M.IPv4address( uriref::bit( h ) ) );  // longest IPv4address starting at h
         if( e > 0 && unsigned( e ) < s.size() && is_regname_char( (unsigned char)s[ e ] ) ) {
            std::string t = s;
            t[ h ] = 'g';
            uriref::Matcher M2;
            M2.load( t.data(), t.size() );
            found = M2.derivable( rule ) && lib_exact( rule, t ) == ACCEPT;
         }
      }
      return found;
   }

   long c_ref_accept = 0, c_ref_reject = 0, c_lib_accept = 0, c_lib_global = 0, c_nontrivial = 0;

   // returns true if the reference derives s from `rule`
   bool check( int rule, const std::string& s )
   {
      ++vf::st.evaluations;
      const bool ref = M.derivable( rule );
      ++( ref ? c_ref_accept : c_ref_reject );
      const int a = lib_exact( rule, s );
      const int p = lib_tail( rule, s, "1111", 4 );
      if( a == GLOBAL ) ++c_lib_global;
      if( a == ACCEPT ) ++c_lib_accept;
      const bool la = ( a == ACCEPT ), lp = ( p == ACCEPT );
      if( la == ref && lp == ref && a < OTHER_STD && p < OTHER_STD ) {
         if( ref && !g_sampled[ rule ] && s.size() >= 4 ) {
            g_sampled[ rule ] = true;
            vf::sample( "{\"rule\":\"" + std::string( uriref::rule_name( rule ) ) + "\",\"input\":\"" + vf::jesc( vf::show( s ) ) + "\",\"reference\":\"accept\",\"library\":\"accept\"}" );
         }
         return ref;
      }
      const std::string cs = std::string( uriref::rule_name( rule ) ) + ":" + vf::hex( s );
      const std::string common = "\"rule\":\"" + std::string( uriref::rule_name( rule ) ) + "\",\"input\":\"" + vf::jesc( vf::show( s ) ) + "\",\"hex\":\"" + vf::hex( s ) + "\"";
      if( a >= OTHER_STD || p >= OTHER_STD ) {
         vf::count( "other_exceptions" );
         vf::violation( std::string( "C20|" ) + uriref::rule_name( rule ) + " throws an exception that is not a parse_error",
                        common + ",\"expected\":\"" + ( ref ? "accept" : "reject" ) + "\",\"observed\":\"" + outcome_name( a >= OTHER_STD ? a : p ) + "\",\"what\":\"" + vf::jesc( g_what ) + "\"", cs, g_cap );
         return ref;
      }
      const int z = lib_tail( rule, s, "", 0 );
      const bool lz = ( z == ACCEPT );
      if( la != lp || la != lz ) {
         // not a property of the string: the library looked at memory after `end`
         const bool digit_end = !s.empty() && s.back() >= '0' && s.back() <= '9';
         vf::count( "overread_dependent" );
         vf::violation( std::string( "C20|outcome depends on bytes beyond the end of the input|" ) + ( digit_end ? "input ends in a digit (dec-octet scan)" : "other" ),
                        common + ",\"expected\":\"" + ( ref ? "accept" : "reject" ) + "\",\"observed_exact_buffer\":\"" + outcome_name( a ) + "\",\"observed_tail_1111\":\"" + outcome_name( p )
                           + "\",\"observed_tail_NUL\":\"" + outcome_name( z ) + "\"",
                        cs, g_cap );
         return ref;
      }
      if( ref ) {
         // RFC derives it, library rejects it
         std::string cls;
         if( rule <= uriref::R_absolute_URI && ipv4_prefix_host( rule, s ) )
            cls = "host starts with an IPv4address followed by more reg-name characters";
         else
            cls = std::string( uriref::rule_name( rule ) ) + ( a == GLOBAL ? "|by global failure" : "|by local failure" );
         vf::count( "lib_rejects_derivable" );
         vf::violation( "C20|rejects a string derivable from RFC 3986|" + cls, common + ",\"expected\":\"accept\",\"observed\":\"" + outcome_name( a ) + "\"", cs, g_cap );
      }
      else {
         vf::count( "lib_accepts_underivable" );
         vf::violation( std::string( "C20|accepts a string not derivable from RFC 3986|" ) + uriref::rule_name( rule ), common + ",\"expected\":\"reject\",\"observed\":\"accept\"", cs, g_cap );
      }
      return ref;
   }

   // one string against a set of rules; maintains states / non-trivial bookkeeping
   void check_string( const std::string& s, unsigned rulemask )
   {
      if( s.size() > uriref::max_len ) {
         vf::count( "skipped_too_long" );
         return;
      }
      ++vf::st.states;
      M.load( s.data(), s.size() );
      bool any = false;
      for( int r = 0; r < uriref::R_count; ++r ) {
         if( rulemask & ( 1u << r ) ) {
            ++vf::st.transitions;
            any |= check( r, s );
         }
      }
      // non-trivial: derivable from one of the rules, or some partial derivation consumed everything but the last byte
      if( any || ( !s.empty() && uriref::highest( M.reach ) >= int( s.size() ) - 1 ) ) {
         ++c_nontrivial;
         if( vf::st.distinct.size() < 1500000 ) vf::nontrivial( vf::hstr( s, 1469598103934665603ull ^ rulemask ) );
      }
   }

   const unsigned ALL = 31;

   // per-domain bookkeeping: number of strings of this shard and wall time go into counters / the note
   std::string g_domain_note;
   void domain_done( const char* name, bool ok )
   {
      static long last_states = 0;
      static double last_t = 0;
      vf::count( ( std::string( name ) + "_done" ).c_str(), ok );
      vf::count( ( std::string( name ) + "_strings" ).c_str(), vf::st.states - last_states );
      char b[ 96 ];
      snprintf( b, sizeof b, " %s=%ld strings/%.1fs", name, vf::st.states - last_states, vf::elapsed() - last_t );
      g_domain_note += b;
      last_states = vf::st.states;
      last_t = vf::elapsed();
   }

   struct Context
   {
      int rule;
      const char* pre;
      const char* post;
   };

   unsigned long long g_base = 0;  // global case index of the first case of the current domain
   unsigned long long g_tick = 0;

   bool tick()
   {
      return ( ( ++g_tick & 0xfff ) == 0 ) && vf::out_of_time();
   }

   // all token strings of exactly `len` tokens; shard by global index
   template< typename F >
   bool for_each_token_string( const std::vector< std::string >& tok, int len, F f )
   {
      unsigned long long total = 1;
      for( int i = 0; i < len; ++i ) total *= tok.size();
      const unsigned long long ns = vf::args.nshards;
      unsigned long long first = ( ( vf::args.shard + ns ) - ( g_base % ns ) ) % ns;
      std::string s;
      for( unsigned long long i = first; i < total; i += ns ) {
         unsigned long long v = i;
         s.clear();
         for( int k = 0; k < len; ++k ) {
            s += tok[ v % tok.size() ];
            v /= tok.size();
         }
         f( s );
         if( tick() ) return false;
      }
      g_base += total;
      return true;
   }

   void run_contexts( const std::string& s, const std::vector< Context >& cx )
   {
      std::string t;
      for( const auto& c : cx ) {
         t = c.pre;
         t += s;
         t += c.post;
         check_string( t, 1u << c.rule );
      }
   }

   const std::vector< std::string >& corpus()
   {
      static const std::vector< std::string > c = {
         // RFC 3986 section 1.1.2
         "ftp://ftp.is.co.za/rfc/rfc1808.txt",
         "http://www.ietf.org/rfc/rfc2396.txt",
         "ldap://[2001:db8::7]/c=GB?objectClass?one",
         "mailto:John.Doe@example.com",
         "news:comp.infosystems.www.servers.unix",
         "tel:+1-816-555-1212",
         "telnet://192.0.2.16:80/",
         "urn:oasis:names:specification:docbook:dtd:xml:4.1.2",
         // section 3
         "foo://example.com:8042/over/there?name=ferret#nose",
         "urn:example:animal:ferret:nose",
         // section 5.4 (base and references)
         "http://a/b/c/d;p?q",
         "g:h", "g", "./g", "g/", "/g", "//g", "?y", "g?y", "#s", "g#s", "g?y#s", ";x", "g;x", "g;x?y#s", "", ".", "./", "..", "../", "../g", "../..", "../../", "../../g",
         "../../../g", "/./g", "/../g", "g.", ".g", "g..", "..g", "./../g", "./g/.", "g/./h", "g/../h", "g;x=1/./y", "g;x=1/../y", "g?y/./x", "g?y/../x", "g#s/./x", "g#s/../x", "http:g",
         // section 6.2
         "example://a/b/c/%7Bfoo%7D",
         "eXAMPLE://a/./b/../b/%63/%7bfoo%7d",
         "HTTP://www.EXAMPLE.com/",
         "http://example.com",
         "http://example.com:/",
         "http://example.com:80/",
         "http://example.com/?",
         "mailto:Joe@Example.COM",
         "http://www.example.com/~smith/",
         // authority forms
         "//user:pw@1.2.3.4:80/x?y#z",
         "http://[::1]:80/",
         "http://[v1F.a:b!]/",
         "http://[V7.~]",
         "a://@[::ffff:192.0.2.1]:",
         "//255.249.100.0",
         "//1.2.3.4x",
         "x://1.2.3.4.5/",
         "//[1:2:3:4:5:6:7:8]/a",
         // address literals: IPv4address, and one IPv6address per ABNF alternative at its maximal left part
         "192.0.2.16",
         "255.249.100.0",
         "1:2:3:4:5:6:7:8",
         "1:2:3:4:5:6:1.2.3.4",
         "::2:3:4:5:6:7:8",
         "::2:3:4:5:6:1.2.3.4",
         "1::3:4:5:6:7:8",
         "1:2::4:5:6:7:8",
         "1:2:3::5:6:7:8",
         "1:2:3:4::6:7:8",
         "1:2:3:4:5::7:8",
         "1:2:3:4:5::1.2.3.4",
         "1:2:3:4:5:6::8",
         "1:2:3:4:5:6:7::",
         "::",
         "::ABCD",
         "2001:db8::7",
         "::ffff:192.0.2.1",
      };
      return c;
   }

   void replay()
   {
      const auto pos = vf::args.the_case.find( ':' );
      if( pos == std::string::npos ) return;
      const std::string rn = vf::args.the_case.substr( 0, pos );
      const std::string s = vf::unhex( vf::args.the_case.substr( pos + 1 ) );
      for( int r = 0; r < uriref::R_count; ++r ) {
         if( rn == uriref::rule_name( r ) ) check_string( s, 1u << r );
      }
   }

}  // namespace

// all single byte edits of d over the edit bytes E: delete, replace, insert
static void single_edits( const std::string& d, const std::string& E, std::vector< std::string >& out )
{
   std::string t;
   for( std::size_t i = 0; i < d.size(); ++i ) {
      t = d;
      t.erase( i, 1 );
      out.push_back( t );
   }
   for( std::size_t i = 0; i < d.size(); ++i ) {
      for( char c : E ) {
         if( d[ i ] == c ) continue;
         t = d;
         t[ i ] = c;
         out.push_back( t );
      }
   }
   for( std::size_t i = 0; i <= d.size(); ++i ) {
      for( char c : E ) {
         t = d;
         t.insert( i, 1, c );
         out.push_back( t );
      }
   }
}

int main( int argc, char** argv )
{
   vf::parse_args( argc, argv );
   if( vf::args.replay ) {
      replay();
      vf::count( "ref_accept", c_ref_accept );
      vf::count( "ref_reject", c_ref_reject );
      vf::finish();
      return 0;
   }
   const bool T = vf::args.thorough();
   bool ok = true;

   // ---- D1 ------------------------------------------------------------------------------------
   {
      std::vector< std::string > A, B;
      for( const char* p = "agv012569.:/?#[]@%!-+ "; *p; ++p ) A.push_back( std::string( 1, *p ) );
      for( const char* p = "agv01.:/?#[]@%-+"; *p; ++p ) B.push_back( std::string( 1, *p ) );
      const int L = T ? 6 : 5;
      for( int len = 0; ok && len <= L; ++len ) {
         ok = for_each_token_string( A, len, [ & ]( const std::string& s ) { check_string( s, ALL ); } );
      }
      domain_done( "D1", ok );
      if( ok ) ok = for_each_token_string( B, L + 1, [ & ]( const std::string& s ) { check_string( s, ALL ); } );
      domain_done( "D1r", ok );
   }

   const std::vector< Context > cx4 = {
      { uriref::R_IPv4address, "", "" },
      { uriref::R_URI_reference, "//", "" },
      { uriref::R_absolute_URI, "a://", "/" },
      { uriref::R_URI, "a://u@", ":8?q" },
      { uriref::R_IPv6address, "::", "" },
      { uriref::R_URI_reference, "//[::", "]" },
   };

   // ---- D2a -----------------------------------------------------------------------------------
   if( ok ) {
      const std::vector< std::string > slot = { "", "0", "9", "10", "99", "100", "199", "200", "249", "250", "255", "256", "260", "00", "01", "1a" };
      for( int k = 1; ok && k <= 5; ++k ) {
         unsigned long long total = 1;
         for( int i = 0; i < k; ++i ) total *= slot.size();
         const unsigned long long ns = vf::args.nshards;
         const unsigned long long first = ( ( vf::args.shard + ns ) - ( g_base % ns ) ) % ns;
         std::string s;
         for( unsigned long long i = first; ok && i < total; i += ns ) {
            unsigned long long v = i;
            s.clear();
            for( int j = 0; j < k; ++j ) {
               if( j ) s += '.';
               s += slot[ v % slot.size() ];
               v /= slot.size();
            }
            run_contexts( s, cx4 );
            if( tick() ) ok = false;
         }
         g_base += total;
      }
      domain_done( "D2a", ok );
   }

   // ---- D2b -----------------------------------------------------------------------------------
   if( ok ) {
      const std::vector< std::string > tok = { "0", "1", "25", "255", "256", "01", "a", "." };
      const int L = T ? 8 : 7;
      for( int len = 1; ok && len <= L; ++len ) {
         ok = for_each_token_string( tok, len, [ & ]( const std::string& s ) { run_contexts( s, cx4 ); } );
      }
      domain_done( "D2b", ok );
   }

   // ---- D3 ------------------------------------------------------------------------------------
   if( ok ) {
      const std::vector< Context > direct = { { uriref::R_IPv6address, "", "" } };
      const std::vector< Context > bracket = { { uriref::R_URI_reference, "//[", "]" } };
      const std::vector< Context > bracket2 = { { uriref::R_URI, "a://[", "]:8/" } };
      const std::vector< std::string > tok = { "1", "abcd", "12345", ":", "::", "1.2.3.4", "255.255.255.255", "1.2.3.256", "1:" };
      const int Ld = T ? 9 : 8;  // IPv6address itself
      const int Lb = T ? 8 : 6;   // inside "[" "]" (nearly every such case ends in a thrown parse_error, which is ~10x slower)
      for( int len = 1; ok && len <= Ld; ++len ) {
         ok = for_each_token_string( tok, len, [ & ]( const std::string& s ) { run_contexts( s, direct ); } );
      }
      domain_done( "D3", ok );
      // D3c: the same around the maximum number of groups: a six-group prefix as one token, so that 7 and 8 explicit groups
      // with and without "::" and an IPv4 tail are reached within 6 tokens (boundaries of the bounded repetitions of the grammar)
      if( ok ) {
         const std::vector< std::string > tok6 = { "1:1:1:1:1:1:", "1:1:1:1:1:", "1:", "1", "::", ":", "1.2.3.4", "abcd" };
         for( int len = 1; ok && len <= 6; ++len ) {
            ok = for_each_token_string( tok6, len, [ & ]( const std::string& s ) { run_contexts( s, direct ); } );
         }
         domain_done( "D3c", ok );
      }
      for( int len = 0; ok && len <= Lb; ++len ) {
         ok = for_each_token_string( tok, len, [ & ]( const std::string& s ) { run_contexts( s, bracket ); } );
      }
      for( int len = 0; ok && T && len <= 7; ++len ) {
         ok = for_each_token_string( tok, len, [ & ]( const std::string& s ) { run_contexts( s, bracket2 ); } );
      }
      domain_done( "D3b", ok );
   }

   // ---- D4 ------------------------------------------------------------------------------------
   if( ok ) {
      std::string E = "agv012569.:/?#[]@%!-+ ";
      E += "VF~=_&";
      E += '\x80';
      E += '\0';
      const unsigned long long ns = vf::args.nshards;
      auto mine = [ & ]() { return ( g_base++ % ns ) == (unsigned long long)vf::args.shard; };
      std::vector< std::string > e1, e2;
      for( const std::string& d : corpus() ) {
         if( !ok ) break;
         // every corpus entry must itself be derivable from at least one of the five productions
         M.load( d.data(), d.size() );
         bool any = false;
         for( int r = 0; r < uriref::R_count; ++r ) any |= M.derivable( r );
         if( !any ) vf::count( "corpus_entry_not_derivable" );
         if( mine() ) check_string( d, ALL );
         e1.clear();
         single_edits( d, E, e1 );
         for( const auto& t : e1 ) {
            if( mine() ) check_string( t, ALL );
         }
         if( T && d.size() <= 12 ) {  // thorough: all double edits of the short entries
            for( const auto& t : e1 ) {
               e2.clear();
               single_edits( t, E, e2 );
               for( const auto& u : e2 ) {
                  if( mine() ) check_string( u, ALL );
               }
               if( vf::out_of_time() ) ok = false;
               if( !ok ) break;
            }
         }
         if( vf::out_of_time() ) ok = false;
      }
      domain_done( "D4", ok );
   }

   // ---- D5 ------------------------------------------------------------------------------------
   // every one of the 256 byte values replaced / inserted at every position of every corpus string: the class
   // representatives of D1 cover the classes of RFC 3986, this covers each individual byte (a grammar that lets a
   // single excluded character such as '{', '|', '`' or DEL slip into a class is caught here)
   if( ok ) {
      std::string E;
      for( int b = 0; b < 256; ++b ) E += char( b );
      const unsigned long long ns = vf::args.nshards;
      auto mine = [ & ]() { return ( g_base++ % ns ) == (unsigned long long)vf::args.shard; };
      std::vector< std::string > e1;
      for( const std::string& d : corpus() ) {
         if( !ok ) break;
         e1.clear();
         single_edits( d, E, e1 );
         for( const auto& t : e1 ) {
            if( mine() ) check_string( t, ALL );
         }
         if( vf::out_of_time() ) ok = false;
      }
      domain_done( "D5", ok );
   }

   const std::string nc = std::to_string( corpus().size() );
   std::string note = T ? "thorough: D1 all strings len<=6 over 22 class representatives [agv012569.:/?#[]@%!-+ SP] + len 7 over the 16 [agv01.:/?#[]@%-+], x 5 rules; D2a 1..5 dotted slots of 16 octet tokens x 6 contexts; "
                          "D2b <=8 tokens over {0 1 25 255 256 01 a .} x 6 contexts; D3 <=9 tokens over 9 IPv6 tokens {1 abcd 12345 : :: 1.2.3.4 255.255.255.255 1.2.3.256 1:} as IPv6address (19 strings > 126 bytes skipped, counter skipped_too_long), D3b <=8 tokens inside //[..] and <=7 inside a://[..]:8/; "
                          "D4 all single byte edits (30 edit bytes) of " + nc + " RFC 3986 corpus strings and all double edits of those of length<=12, x 5 rules; D5 all single byte edits with all 256 byte values; every library run repeated with a poison tail behind the input"
                        : "quick: D1 all strings len<=5 over 22 class representatives [agv012569.:/?#[]@%!-+ SP] + len 6 over the 16 [agv01.:/?#[]@%-+], x 5 rules; D2a 1..5 dotted slots of 16 octet tokens x 6 contexts; "
                          "D2b <=7 tokens over {0 1 25 255 256 01 a .} x 6 contexts; D3 <=8 tokens over 9 IPv6 tokens {1 abcd 12345 : :: 1.2.3.4 255.255.255.255 1.2.3.256 1:} as IPv6address, D3b <=6 tokens inside //[..]; "
                          "D4 all single byte edits (30 edit bytes) of " + nc + " RFC 3986 corpus strings x 5 rules; D5 the same with all 256 byte values; every library run repeated with a poison tail behind the input";
   vf::st.note = note + "; this shard:" + g_domain_note;
   vf::count( "ref_accept", c_ref_accept );
   vf::count( "ref_reject", c_ref_reject );
   vf::count( "lib_accept", c_lib_accept );
   vf::count( "lib_global_failure", c_lib_global );
   vf::count( "nontrivial_strings", c_nontrivial );
   vf::finish();
   return 0;
}
