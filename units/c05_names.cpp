// C05 (identity of the blamed rule in the default message): "parse error matching <rule>" must name the
// rule completely, whatever characters occur in its printed name.  Domain: every printable ASCII character
// C (95 values) as template argument of one< C >, string< 'a', C, 'b' >, range< C, '~' > and a nested
// seq< one< C >, not_one< ';' > >, each under must<> at a position where it fails; plus demangle< T >() itself.
// Oracle: the name printed the way the compiler prints a char template argument ('x', '\'' and '\\' escaped),
// assembled independently here; the message must equal it exactly (no truncation, no extra text).
#include <tao/pegtl.hpp>

#include "../engine/common.hpp"

namespace p = tao::pegtl;

static std::string chr( char c )
{
   if( c == '\'' ) return "'\\''";
   if( c == '\\' ) return "'\\\\'";
   if( c == '"' ) return "'\\\"'";  // gcc also escapes the double quote inside a character literal
   return std::string( "'" ) + c + "'";
}

template< typename Rule >
static std::string fail_message( const std::string& input )
{
   p::memory_input<> in( input.data(), input.data() + input.size(), "src" );
   try {
      (void)p::parse< p::must< Rule > >( in );
   }
   catch( const p::parse_error& e ) {
      return std::string( e.message() );
   }
   return "<no parse_error>";
}

static void expect( const std::string& what, const std::string& got, const std::string& want, int c )
{
   ++vf::st.evaluations;
   vf::nontrivial( vf::hstr( what + want ) );
   if( got != want ) vf::violation( "C05|default error message does not name the failed rule exactly|" + what, "\"expected\":\"" + vf::jesc( want ) + "\",\"observed\":\"" + vf::jesc( got ) + "\"", what + ":" + std::to_string( c ) );
   if( vf::st.samples.size() < 4 && ( c % 29 ) == 1 ) vf::sample( "{\"rule\":\"" + vf::jesc( want ) + "\"}" );
}

template< char C >
static void one_char()
{
   const std::string pre = "parse error matching ";
   const std::string other( 1, C == 'z' ? 'y' : 'z' );  // an input on which the rule fails
   expect( "one<C>", fail_message< p::one< C > >( other ), pre + "tao::pegtl::ascii::one<" + chr( C ) + ">", C );
   expect( "string<a,C,b>", fail_message< p::string< 'a', C, 'b' > >( "a" ), pre + "tao::pegtl::ascii::string<'a', " + chr( C ) + ", 'b'>", C );
   expect( "not_one<C> nested in seq", fail_message< p::seq< p::one< C >, p::not_one< ';' > > >( other ), pre + "tao::pegtl::seq<tao::pegtl::ascii::one<" + chr( C ) + ">, tao::pegtl::ascii::not_one<';'> >", C );
   expect( "demangle<one<C>>", std::string( p::demangle< p::one< C > >() ), "tao::pegtl::ascii::one<" + chr( C ) + ">", C );
}

template< std::size_t... Is >
static void all_chars( std::index_sequence< Is... > )
{
   ( one_char< char( 32 + Is ) >(), ... );
}

int main( int argc, char** argv )
{
   vf::parse_args( argc, argv );
   if( vf::args.shard == 0 || vf::args.replay ) all_chars( std::make_index_sequence< 95 >() );
   vf::st.states = vf::st.transitions = vf::st.evaluations;
   vf::st.note = "all 95 printable ASCII characters as template argument of 4 rule shapes";
   vf::finish();
   return 0;
}
