// C17 - "Unescape helpers produce exact UTF-8 and reject invalid code points."
//
// tao/pegtl/contrib/unescape.hpp is compared, on exhaustively enumerated (never sampled) domains, with oracles
// written from RFC 3629 section 3 (UTF-8 encoding table), RFC 2781 section 2.2 / RFC 8259 section 7 (surrogate
// pairs in \uXXXX escapes), positional hexadecimal notation, and the escape tables of RFC 8259 section 7 and of
// ISO C (5.2.2 / 6.4.4.4) for the single character escapes.
//
//   utf8_append_utf32( s, cp )  returns true and appends exactly the RFC 3629 encoding for every scalar value,
//                               returns false and leaves s untouched for D800..DFFF and everything above 10FFFF
//   unhex_char / unhex_string   positional value of the digits 0-9 a-f A-F
//   unescape_x / _u / _j / _c   driven the way a user does: tao::pegtl::parse with a small grammar, an action class
//                               deriving from the helper and a std::string state; an invalid code point is
//                               reported by a tao::pegtl::parse_error ("invalid escaped unicode code point")
//   append_all                  copies the matched bytes
//
// Inputs handed to the library are exact-size, directly followed by a PROT_NONE page (no terminator, over-reads
// fault and are reported).
//
// DOMAINS
//  both tiers
//   T1 append   : utf8_append_utf32 for ALL 2^32 values of the `unsigned` argument (prefix "ab" in the string);
//                 all values 0..0x110100 additionally with an empty string
//   T2 unhex    : unhex_char< T > for all 22 hex digits x 6 types; unhex_string< unsigned char / char > all
//                 strings of 1..2 digits, < unsigned short > ALL strings of 1..4 digits (22^4 = 234256 of length 4),
//                 < unsigned > all strings of 1..5 digits and all strings of 6..8 digits over {0,1,7,8,9,a,A,f,F},
//                 < int > the same up to 7 digits, < unsigned long long > all 16-digit strings whose bytes are from
//                 {00,01,7f,80,Fe,fF}, all strings of 1..16 digits over {0,f}, all of 1..9 digits over {0,1,8,a,F}
//   T3 \xHH     : unescape_x, all 22^2 digit pairs
//   T4 \uXXXX   : unescape_u, all 22^4 digit strings (every 16-bit value in every upper/lower case spelling)
//   T5 \UX{8}   : unescape_u, all values 0..0x11FFFF (lower case) and all 8-digit strings over {0,1,8,d,f,F}
//                 (quick, 6^8) resp. {0,1,7,8,d,D,e,f,F} (thorough, 9^8)
//   T6 \u lists : unescape_j on list< \uXXXX >: all single escapes (22^4 spellings); ALL sequences of 1, 2 and 3
//                 escapes over the 18 boundary spellings 0000 0001 007F 0080 07FF 0800 D7FF D800 DBFF DC00 DFFF E000
//                 FFFF 007f d800 dBfF Dc00 dfff; every boundary value x every surrogate x every boundary value;
//                 quick: ALL pairs surrogate x surrogate (2048^2), boundary x all 65536 and all 65536 x boundary
//                 thorough: ALL 2^32 pairs of escapes
//   T7 json     : tao::pegtl::json::string with the json_unescape action set of src/example/pegtl/json_unescape.hpp:
//                 all sequences of 1..3 pieces over 20 pieces (13 boundary \u escapes, 3 of the 8 two-character
//                 escapes - all 8 are also run on their own -, literal characters of 1, 2, 3 and 4 UTF-8 bytes)
//   T8 C escapes: unescape_c with three parameterisations (ISO C table, RFC 8259 table, one with '0' -> NUL and a
//                 byte >= 0x80) x all 256 characters after the backslash
//   T9 mixed    : the grammar of src/test/pegtl/contrib_unescape.cpp (\x \u \U \j-lists, C escapes, utf8::any
//                 literals): all sequences of 1..4 pieces over 12 pieces
//
// replay:  u_c17 case 'append:<cp hex>:<prefix hex>' | 'unhexc:<type>:<char hex>' | 'unhexs:<type>:<digits hex>'
//                     | 'g:<grammar id>:<input hex>'

#include <signal.h>
#include <sys/mman.h>
#include <unistd.h>

#include <exception>

#include <tao/pegtl.hpp>
#include <tao/pegtl/contrib/json.hpp>
#include <tao/pegtl/contrib/unescape.hpp>

#include "engine/common.hpp"

namespace pegtl = tao::pegtl;
using u8 = unsigned char;

// =====================================================================================================
//  exact-size input buffer: [ ... input bytes ][ PROT_NONE page ]
// =====================================================================================================

static u8* g_guard = nullptr;
static long g_page = 4096;
static volatile const char* g_cur_what = nullptr;  // what the library is working on (for the fault handler)
static std::string g_cur_case;
static const char* volatile g_cur_gram_id = nullptr;         // grammar run in progress: its case string is
static const std::string* volatile g_cur_gram_in = nullptr;  //   only built when a crash has to be reported

static volatile bool g_cur_is_append = false;  // current call is utf8_append_utf32( "ab", g_cur_cp )
static volatile unsigned g_cur_cp = 0;

// The library call in progress died (over-read into the guard page, std::terminate, failed assert): report it as a
// violation of the current case, write the STAT line (not exhaustive) and leave.
static void crash_report( const char* how )
{
   if( !g_cur_what ) {
      fprintf( stderr, "c17: harness crashed outside a library call (%s)\n", how );
      _exit( 3 );
   }
   const std::string what( const_cast< const char* >( g_cur_what ) );
   g_cur_what = nullptr;
   if( g_cur_is_append ) {
      char cs[ 16 ];
      snprintf( cs, sizeof cs, "%08x", unsigned( g_cur_cp ) );
      g_cur_case = "append:" + std::string( cs ) + ":6162";
   }
   else if( g_cur_gram_id && g_cur_gram_in ) {
      g_cur_case = "g:" + std::string( g_cur_gram_id ) + ":" + vf::hex( *g_cur_gram_in );
   }
   vf::violation( "C17|" + what + " " + how, "\"expected\":\"normal return or parse_error\",\"observed\":\"" + std::string( how ) + "\"", g_cur_case );
   vf::st.exhaustive = false;
   vf::st.note += " ABORTED after a crash inside the library; remaining domain not explored.";
   vf::finish();
   _exit( 0 );
}

static void on_fault( int, siginfo_t* si, void* )
{
   const u8* a = static_cast< const u8* >( si->si_addr );
   if( a >= g_guard && a < g_guard + g_page ) crash_report( "reads beyond the end of its input" );
   fprintf( stderr, "c17: unexpected fault at %p\n", si->si_addr );
   _exit( 3 );
}

static void on_abort( int )
{
   crash_report( "aborts the process (std::terminate or failed assert)" );
}

static void on_terminate()
{
   crash_report( "aborts the process (std::terminate or failed assert)" );
}

static void guard_init()
{
   g_page = sysconf( _SC_PAGESIZE );
   void* m = mmap( nullptr, size_t( 2 * g_page ), PROT_READ | PROT_WRITE, MAP_PRIVATE | MAP_ANONYMOUS, -1, 0 );
   if( m == MAP_FAILED || mprotect( static_cast< char* >( m ) + g_page, size_t( g_page ), PROT_NONE ) != 0 ) {
      fprintf( stderr, "c17: cannot set up guard page\n" );
      exit( 2 );
   }
   g_guard = static_cast< u8* >( m ) + g_page;
   struct sigaction sa;
   memset( &sa, 0, sizeof sa );
   sa.sa_sigaction = on_fault;
   sa.sa_flags = SA_SIGINFO;
   sigaction( SIGSEGV, &sa, nullptr );
   sigaction( SIGBUS, &sa, nullptr );
   signal( SIGABRT, on_abort );
   std::set_terminate( on_terminate );
}

// copy to the exact-size slot in front of the guard page
static const char* place( const char* data, const size_t n )
{
   if( n > size_t( g_page ) ) {
      fprintf( stderr, "c17: input too long\n" );
      exit( 2 );
   }
   u8* p = g_guard - n;
   memcpy( p, data, n );
   return reinterpret_cast< const char* >( p );
}

// =====================================================================================================
//  ORACLES
// =====================================================================================================

// RFC 3629 section 3:
//    Char. number range  |        UTF-8 octet sequence
//    0000 0000-0000 007F | 0xxxxxxx
//    0000 0080-0000 07FF | 110xxxxx 10xxxxxx
//    0000 0800-0000 FFFF | 1110xxxx 10xxxxxx 10xxxxxx
//    0001 0000-0010 FFFF | 11110xxx 10xxxxxx 10xxxxxx 10xxxxxx
// "The definition of UTF-8 prohibits encoding character numbers between U+D800 and U+DFFF"; nothing above
// U+10FFFF is a character number.  Returns the number of bytes written, 0 when cp is not a scalar value.
static unsigned oracle_utf8_encode( unsigned long cp, u8 out[ 4 ] )
{
   if( cp > 0x10FFFFul ) return 0;
   if( cp >= 0xD800ul && cp <= 0xDFFFul ) return 0;
   const unsigned n = cp < 0x80ul ? 1 : cp < 0x800ul ? 2 : cp < 0x10000ul ? 3 : 4;
   static const unsigned lead_marker[ 5 ] = { 0, 0, 192, 224, 240 };  // 0xxxxxxx, 110xxxxx, 1110xxxx, 11110xxx
   for( unsigned i = n - 1; i >= 1; --i ) {
      out[ i ] = u8( 128 + cp % 64 );  // 10xxxxxx
      cp /= 64;
   }
   out[ 0 ] = u8( lead_marker[ n ] + cp );
   return n;
}

// Cross check of the oracle encoder (harness self test only): RFC 3629 section 4 ABNF as a byte range table.
static bool selfcheck_utf8_decode( const u8* p, const unsigned n, unsigned long& cp )
{
   struct Row
   {
      u8 l0, l1, s0, s1;
      unsigned len;
   };
   static const Row rows[] = { { 0x00, 0x7F, 0, 0, 1 }, { 0xC2, 0xDF, 0x80, 0xBF, 2 }, { 0xE0, 0xE0, 0xA0, 0xBF, 3 }, { 0xE1, 0xEC, 0x80, 0xBF, 3 }, { 0xED, 0xED, 0x80, 0x9F, 3 }, { 0xEE, 0xEF, 0x80, 0xBF, 3 }, { 0xF0, 0xF0, 0x90, 0xBF, 4 }, { 0xF1, 0xF3, 0x80, 0xBF, 4 }, { 0xF4, 0xF4, 0x80, 0x8F, 4 } };
   for( const Row& r : rows ) {
      if( p[ 0 ] < r.l0 || p[ 0 ] > r.l1 ) continue;
      if( r.len != n ) return false;
      if( n == 1 ) {
         cp = p[ 0 ];
         return true;
      }
      if( p[ 1 ] < r.s0 || p[ 1 ] > r.s1 ) return false;
      static const unsigned keep[ 5 ] = { 0, 0, 0x1F, 0x0F, 0x07 };
      cp = p[ 0 ] & keep[ n ];
      for( unsigned i = 1; i < n; ++i ) {
         if( p[ i ] < 0x80 || p[ i ] > 0xBF ) return false;
         cp = ( cp << 6 ) | ( p[ i ] & 0x3F );
      }
      return true;
   }
   return false;
}

// Positional notation: the digits 0-9 have the values 0..9, a-f and A-F the values 10..15; -1 otherwise.
static int oracle_hex_digit( const char c )
{
   static const char dec[] = "0123456789";
   static const char low[] = "abcdef";
   static const char upp[] = "ABCDEF";
   for( int i = 0; i < 10; ++i )
      if( c == dec[ i ] ) return i;
   for( int i = 0; i < 6; ++i )
      if( c == low[ i ] || c == upp[ i ] ) return 10 + i;
   return -1;
}

// value of a digit string of at most 16 digits
static bool oracle_hex_value( const char* s, const size_t n, unsigned long long& v )
{
   v = 0;
   for( size_t i = 0; i < n; ++i ) {
      const int d = oracle_hex_digit( s[ i ] );
      if( d < 0 ) return false;
      v = v * 16 + unsigned( d );
   }
   return true;
}

// RFC 8259 section 7: "To escape an extended character that is not in the Basic Multilingual Plane, the character
// is represented as a 12-character sequence, encoding the UTF-16 surrogate pair"; RFC 2781 section 2.2: W1 in
// D800..DBFF directly followed by W2 in DC00..DFFF gives 0x10000 + (W1 - D800) * 400h + (W2 - DC00); any other
// code unit in D800..DFFF is an error; every other unit is the character itself.
// (unescape.hpp: "unescape_j translates UTF-16 surrogate pairs in the input into a single UTF-8 sequence".)
static bool oracle_utf16_units_to_utf8( const std::vector< unsigned >& units, std::string& out )
{
   for( size_t i = 0; i < units.size(); ++i ) {
      unsigned long cp = units[ i ];
      if( cp >= 0xD800 && cp <= 0xDBFF ) {
         if( i + 1 >= units.size() || units[ i + 1 ] < 0xDC00 || units[ i + 1 ] > 0xDFFF ) return false;  // lone high surrogate
         cp = 0x10000ul + ( cp - 0xD800 ) * 0x400ul + ( units[ i + 1 ] - 0xDC00 );
         ++i;
      }
      else if( cp >= 0xDC00 && cp <= 0xDFFF ) {
         return false;  // lone low surrogate
      }
      u8 b[ 4 ];
      const unsigned n = oracle_utf8_encode( cp, b );
      if( n == 0 ) return false;
      out.append( reinterpret_cast< const char* >( b ), n );
   }
   return true;
}

// single character escapes: ( character after the backslash, resulting byte )
struct CPair
{
   u8 from, to;
};
// ISO C 6.4.4.4 simple-escape-sequence with the values of 5.2.2 in ASCII:  \' \" \? \\ \a \b \f \n \r \t \v
static const std::vector< CPair > CMAP_C = { { 0x27, 0x27 }, { 0x22, 0x22 }, { 0x3F, 0x3F }, { 0x5C, 0x5C }, { 'a', 7 }, { 'b', 8 }, { 'f', 12 }, { 'n', 10 }, { 'r', 13 }, { 't', 9 }, { 'v', 11 } };
// RFC 8259 section 7:  %x22 " / %x5C \ / %x2F / / %x62 b -> U+0008 / %x66 f -> U+000C / %x6E n -> U+000A /
//                       %x72 r -> U+000D / %x74 t -> U+0009
static const std::vector< CPair > CMAP_JSON = { { 0x22, 0x22 }, { 0x5C, 0x5C }, { 0x2F, 0x2F }, { 0x62, 0x08 }, { 0x66, 0x0C }, { 0x6E, 0x0A }, { 0x72, 0x0D }, { 0x74, 0x09 } };
// third parameterisation (harness defined): \0 -> NUL, \e -> ESC, \z -> byte FF, \- -> '-', \<byte E9> -> 'E'
static const std::vector< CPair > CMAP_3 = { { '0', 0x00 }, { 'e', 0x1B }, { 'z', 0xFF }, { '-', '-' }, { 0xE9, 'E' } };
// src/test/pegtl/contrib_unescape.cpp: one< '"', '\\', 't' > -> '"', '\\', '\t'
static const std::vector< CPair > CMAP_TEST = { { 0x22, 0x22 }, { 0x5C, 0x5C }, { 't', 9 } };

// =====================================================================================================
//  grammars and actions (the user's side)
// =====================================================================================================

namespace gr
{
   using namespace tao::pegtl;

   // clang-format off
   struct esc_x : seq< one< 'x' >, rep< 2, xdigit > > {};
   struct esc_u : seq< one< 'u' >, rep< 4, xdigit > > {};
   struct esc_U : seq< one< 'U' >, rep< 8, xdigit > > {};
   struct esc_ulist : list< seq< one< 'u' >, rep< 4, xdigit > >, one< '\\' > > {};  // same shape as json::unicode
   struct esc_jlist : list< seq< one< 'j' >, rep< 4, xdigit > >, one< '\\' > > {};  // as in contrib_unescape.cpp
   struct esc_c1 : one< '\'', '"', '?', '\\', 'a', 'b', 'f', 'n', 'r', 't', 'v' > {};  // src/example/pegtl/unescape.cpp
   struct esc_c2 : one< '"', '\\', '/', 'b', 'f', 'n', 'r', 't' > {};                 // json::escaped_char
   struct esc_c3 : one< '0', 'e', 'z', '-', '\xe9' > {};
   struct esc_ct : one< '"', '\\', 't' > {};

   template< typename E > struct single : seq< one< '\\' >, E, eof > {};

   // the grammar of src/test/pegtl/contrib_unescape.cpp
   struct mix_escaped : sor< esc_ct, esc_u, esc_U, esc_jlist, esc_x > {};
   struct mix_character : if_then_else< one< '\\' >, mix_escaped, utf8::any > {};
   struct mix : until< eof, mix_character > {};

   struct json_text : seq< json::string, eof > {};

   template< typename Rule > struct act {};
   template<> struct act< esc_x > : unescape::unescape_x {};
   template<> struct act< esc_u > : unescape::unescape_u {};
   template<> struct act< esc_U > : unescape::unescape_u {};
   template<> struct act< esc_ulist > : unescape::unescape_j {};
   template<> struct act< esc_jlist > : unescape::unescape_j {};
   template<> struct act< esc_c1 > : unescape::unescape_c< esc_c1, '\'', '"', '?', '\\', '\a', '\b', '\f', '\n', '\r', '\t', '\v' > {};
   template<> struct act< esc_c2 > : unescape::unescape_c< esc_c2, '"', '\\', '/', '\b', '\f', '\n', '\r', '\t' > {};
   template<> struct act< esc_c3 > : unescape::unescape_c< esc_c3, '\0', '\x1b', '\xff', '-', 'E' > {};
   template<> struct act< esc_ct > : unescape::unescape_c< esc_ct, '"', '\\', '\t' > {};
   template<> struct act< utf8::any > : unescape::append_all {};

   // the action set of src/example/pegtl/json_unescape.hpp
   template< typename Rule > struct json_act {};
   template<> struct json_act< json::unicode > : unescape::unescape_j {};
   template<> struct json_act< json::escaped_char > : unescape::unescape_c< json::escaped_char, '"', '\\', '/', '\b', '\f', '\n', '\r', '\t' > {};
   template<> struct json_act< json::unescaped > : unescape::append_all {};
   // clang-format on
}  // namespace gr

enum Obs
{
   O_OK,           // parse returned true
   O_FALSE,        // parse returned false
   O_PARSE_ERROR,  // tao::pegtl::parse_error thrown
   O_OTHER         // any other exception
};

struct Outcome
{
   Obs obs;
   std::string s;     // the std::string state after the run
   std::string what;  // exception message
};

template< typename Grammar, template< typename... > class Action >
static Outcome run_grammar( const char* p, const size_t n )
{
   Outcome o{ O_OTHER, "", "" };
   pegtl::memory_input<> in( p, p + n, "src" );
   try {
      o.obs = pegtl::parse< Grammar, Action >( in, o.s ) ? O_OK : O_FALSE;
   }
   catch( const pegtl::parse_error& e ) {
      o.obs = O_PARSE_ERROR;
      o.what = e.what();
   }
   catch( const std::exception& e ) {
      o.obs = O_OTHER;
      o.what = e.what();
   }
   return o;
}

// Description of the input language of one grammar for the oracle (which escapes exist, what they mean).
struct GramSpec
{
   const char* id;
   const char* helper;  // name used in signatures
   Outcome ( *run )( const char*, size_t );
   char list_letter;  // \<l>XXXX[\<l>XXXX...] handled as one UTF-16 sequence (unescape_j); 0: none
   char u4_letter;    // \<l>XXXX one code point (unescape_u)
   char u8_letter;    // \<l>XXXXXXXX one code point (unescape_u)
   char x_letter;     // \<l>HH one byte (unescape_x)
   const std::vector< CPair >* cmap;  // single character escapes (unescape_c)
   bool quoted;       // json: "..." with unescaped characters >= 0x20 other than " and backslash
   bool single;       // exactly one escape construct, then end of input
   bool literals;     // literal UTF-8 characters allowed between escapes (append_all)
};

static const GramSpec GRAMS[] = {
   { "x", "unescape_x", &run_grammar< gr::single< gr::esc_x >, gr::act >, 0, 0, 0, 'x', nullptr, false, true, false },
   { "u", "unescape_u", &run_grammar< gr::single< gr::esc_u >, gr::act >, 0, 'u', 0, 0, nullptr, false, true, false },
   { "U", "unescape_u", &run_grammar< gr::single< gr::esc_U >, gr::act >, 0, 0, 'U', 0, nullptr, false, true, false },
   { "j", "unescape_j", &run_grammar< gr::single< gr::esc_ulist >, gr::act >, 'u', 0, 0, 0, nullptr, false, true, false },
   { "c1", "unescape_c", &run_grammar< gr::single< gr::esc_c1 >, gr::act >, 0, 0, 0, 0, &CMAP_C, false, true, false },
   { "c2", "unescape_c", &run_grammar< gr::single< gr::esc_c2 >, gr::act >, 0, 0, 0, 0, &CMAP_JSON, false, true, false },
   { "c3", "unescape_c", &run_grammar< gr::single< gr::esc_c3 >, gr::act >, 0, 0, 0, 0, &CMAP_3, false, true, false },
   { "json", "json_unescape", &run_grammar< gr::json_text, gr::json_act >, 'u', 0, 0, 0, &CMAP_JSON, true, false, true },
   { "mix", "unescape_mixed", &run_grammar< gr::mix, gr::act >, 'j', 'u', 'U', 'x', &CMAP_TEST, false, false, true },
};

static const GramSpec& gram( const std::string& id )
{
   for( const GramSpec& g : GRAMS )
      if( id == g.id ) return g;
   fprintf( stderr, "c17: unknown grammar %s\n", id.c_str() );
   exit( 2 );
}

enum Exp
{
   E_ACCEPT,        // parse succeeds, state == bytes
   E_INVALID_CP,    // an escape denotes a lone surrogate or a value above U+10FFFF: must be rejected
   E_NOT_LANGUAGE   // the input is not in the grammar's language at all: parse must not succeed
};

struct Expect
{
   Exp kind;
   std::string bytes;
   std::string why;
};

static bool take_hex( const std::string& in, size_t& i, const unsigned digits, unsigned long long& v )
{
   if( i + digits > in.size() ) return false;
   if( !oracle_hex_value( in.data() + i, digits, v ) ) return false;
   i += digits;
   return true;
}

// Expected result of a grammar run, computed from the input alone by tokenising it with the escape syntax in the
// GramSpec and applying the oracles above.
static Expect oracle_expect( const GramSpec& g, const std::string& in )
{
   Expect x{ E_ACCEPT, "", "" };
   size_t i = 0, end = in.size();
   if( g.quoted ) {
      if( in.size() < 2 || in.front() != '"' || in.back() != '"' ) return { E_NOT_LANGUAGE, "", "not a quoted string" };
      i = 1;
      end = in.size() - 1;
   }
   unsigned constructs = 0;
   while( i < end ) {
      ++constructs;
      if( g.single && constructs > 1 ) return { E_NOT_LANGUAGE, "", "more than one escape" };
      const u8 c = u8( in[ i ] );
      if( c != '\\' ) {
         if( !g.literals ) return { E_NOT_LANGUAGE, "", "literal character" };
         if( g.quoted && ( c < 0x20 || c == '"' ) ) return { E_NOT_LANGUAGE, "", "unescaped control character or quote" };
         // one well-formed UTF-8 character is copied verbatim (append_all on utf8::any / json::unescaped)
         unsigned len = c < 0x80 ? 1 : c < 0xE0 ? 2 : c < 0xF0 ? 3 : 4;
         unsigned long cp = 0;
         if( i + len > end || !selfcheck_utf8_decode( reinterpret_cast< const u8* >( in.data() + i ), len, cp ) ) return { E_NOT_LANGUAGE, "", "ill-formed UTF-8 literal" };
         x.bytes.append( in, i, len );
         i += len;
         continue;
      }
      if( i + 1 >= end ) return { E_NOT_LANGUAGE, "", "backslash at end" };
      const char l = in[ i + 1 ];
      unsigned long long v = 0;
      if( g.list_letter && l == g.list_letter ) {
         std::vector< unsigned > units;
         for( ;; ) {
            i += 2;
            if( !take_hex( in, i, 4, v ) || i > end ) return { E_NOT_LANGUAGE, "", "escape without 4 hex digits" };
            units.push_back( unsigned( v ) );
            // the list continues only with backslash, letter and 4 hex digits
            unsigned long long dummy;
            size_t j = i + 2;
            if( i + 1 < end && in[ i ] == '\\' && in[ i + 1 ] == g.list_letter && take_hex( in, j, 4, dummy ) && j <= end ) continue;
            break;
         }
         if( !oracle_utf16_units_to_utf8( units, x.bytes ) ) return { E_INVALID_CP, "", "lone surrogate in a sequence of \\u escapes" };
         continue;
      }
      if( ( g.u4_letter && l == g.u4_letter ) || ( g.u8_letter && l == g.u8_letter ) ) {
         i += 2;
         if( !take_hex( in, i, l == g.u4_letter ? 4 : 8, v ) || i > end ) return { E_NOT_LANGUAGE, "", "escape without enough hex digits" };
         u8 b[ 4 ];
         const unsigned n = oracle_utf8_encode( static_cast< unsigned long >( v ), b );
         if( n == 0 ) return { E_INVALID_CP, "", "escape denotes a surrogate or a value above U+10FFFF" };
         x.bytes.append( reinterpret_cast< const char* >( b ), n );
         continue;
      }
      if( g.x_letter && l == g.x_letter ) {
         i += 2;
         if( !take_hex( in, i, 2, v ) || i > end ) return { E_NOT_LANGUAGE, "", "\\x without 2 hex digits" };
         x.bytes += char( u8( v ) );
         continue;
      }
      bool found = false;
      if( g.cmap ) {
         for( const CPair& cp : *g.cmap ) {
            if( cp.from == u8( l ) ) {
               x.bytes += char( cp.to );
               found = true;
               break;
            }
         }
      }
      if( !found ) return { E_NOT_LANGUAGE, "", "unknown escape character" };
      i += 2;
   }
   if( g.single && constructs != 1 ) return { E_NOT_LANGUAGE, "", "no escape" };
   return x;
}

// =====================================================================================================
//  checks
// =====================================================================================================

static long g_nt_quota = 1800000;

static inline void nontrivial( const uint64_t h )
{
   if( g_nt_quota > 0 ) {
      --g_nt_quota;
      vf::nontrivial( h );
   }
}

static const char* obs_name( const Obs o )
{
   return o == O_OK ? "parse true" : o == O_FALSE ? "parse false" : o == O_PARSE_ERROR ? "parse_error thrown" : "other exception thrown";
}

static long n_accept = 0, n_reject_cp = 0, n_reject_lang = 0, n_reject_by_exception = 0, n_reject_by_false = 0;

static bool check_grammar( const GramSpec& g, const std::string& in, const bool want_sample = false )
{
   const Expect x = oracle_expect( g, in );
   g_cur_gram_id = g.id;
   g_cur_gram_in = &in;
   g_cur_what = g.helper;
   const Outcome o = g.run( place( in.data(), in.size() ), in.size() );
   g_cur_what = nullptr;
   g_cur_gram_id = nullptr;
   g_cur_gram_in = nullptr;
   ++vf::st.evaluations;
   std::string cls;
   if( x.kind == E_ACCEPT ) {
      ++n_accept;
      if( o.obs != O_OK )
         cls = "rejects a valid escape sequence";
      else if( o.s != x.bytes )
         cls = "produces wrong bytes";
   }
   else {
      ( x.kind == E_INVALID_CP ? n_reject_cp : n_reject_lang )++;
      if( o.obs == O_OK )
         cls = ( x.kind == E_INVALID_CP ) ? "accepts a lone surrogate or out-of-range code point" : "accepts input outside the grammar";
      else if( o.obs == O_OTHER )
         cls = "throws an unexpected exception type";
      else
         ( o.obs == O_PARSE_ERROR ? n_reject_by_exception : n_reject_by_false )++;
   }
   if( g_nt_quota > 0 && ( x.kind != E_ACCEPT || x.bytes.size() > 1 ) ) nontrivial( vf::hstr( in, vf::hstr( g.id ) ) );
   if( cls.empty() && !want_sample ) return true;
   // descriptions are only needed for a sample or a violation
   const std::string exp_s = x.kind == E_ACCEPT ? "accept, bytes " + vf::hex( x.bytes ) : "reject (" + x.why + ")";
   const std::string obs_s = std::string( obs_name( o.obs ) ) + ( o.obs == O_OK ? ", bytes " + vf::hex( o.s ) : ( o.what.empty() ? "" : ": " + o.what ) );
   if( want_sample ) vf::sample( "{\"grammar\":\"" + std::string( g.id ) + "\",\"input\":\"" + vf::jesc( vf::show( in ) ) + "\",\"expected\":\"" + vf::jesc( exp_s ) + "\",\"observed\":\"" + vf::jesc( obs_s ) + "\"}", 8 );
   if( cls.empty() ) return true;
   vf::violation( "C17|" + std::string( g.helper ) + " " + cls, "\"grammar\":\"" + std::string( g.id ) + "\",\"input\":\"" + vf::jesc( vf::show( in ) ) + "\",\"expected\":\"" + vf::jesc( exp_s ) + "\",\"observed\":\"" + vf::jesc( obs_s ) + "\"", "g:" + std::string( g.id ) + ":" + vf::hex( in ) );
   return false;
}

// ---- T1: utf8_append_utf32 ----

static long n_app_ok = 0, n_app_refused = 0;

static bool check_append( const unsigned cp, const std::string& prefix, std::string& scratch )
{
   u8 b[ 4 ];
   const unsigned n = oracle_utf8_encode( cp, b );
   scratch.assign( prefix );
   g_cur_cp = cp;
   const bool r = pegtl::unescape::utf8_append_utf32( scratch, cp );
   ++vf::st.evaluations;
   ( n ? n_app_ok : n_app_refused )++;
   const bool bytes_ok = scratch.size() == prefix.size() + n && scratch.compare( 0, prefix.size(), prefix ) == 0 && memcmp( scratch.data() + prefix.size(), b, n ) == 0;
   if( r == ( n != 0 ) && bytes_ok ) return true;
   std::string cls;
   if( n == 0 && r )
      cls = "accepts a surrogate or a value above U+10FFFF";
   else if( n == 0 )
      cls = "modifies the string although it reports failure";
   else if( !r )
      cls = "refuses a Unicode scalar value";
   else
      cls = "appends wrong bytes";
   char cs[ 16 ];
   snprintf( cs, sizeof cs, "%08x", cp );
   vf::violation( "C17|utf8_append_utf32 " + cls, "\"code_point\":\"0x" + std::string( cs ) + "\",\"expected\":\"" + ( n ? "true, appends " + vf::hex( std::string( reinterpret_cast< char* >( b ), n ) ) : std::string( "false, appends nothing" ) ) + "\",\"observed\":\"" + ( r ? "true" : "false" ) + ", string is " + vf::hex( scratch ) + " (prefix " + vf::hex( prefix ) + ")\"", "append:" + std::string( cs ) + ":" + vf::hex( prefix ) );
   return false;
}

// ---- T2: unhex_char / unhex_string ----

template< typename T >
static const char* type_name();
#define C17_TYPE_NAME( T, N )    \
   template<>                    \
   const char* type_name< T >()  \
   {                             \
      return N;                  \
   }
C17_TYPE_NAME( unsigned char, "uchar" )
C17_TYPE_NAME( char, "char" )
C17_TYPE_NAME( unsigned short, "ushort" )
C17_TYPE_NAME( unsigned, "unsigned" )
C17_TYPE_NAME( int, "int" )
C17_TYPE_NAME( unsigned long long, "ulonglong" )

static long n_unhex = 0;

template< typename T >
static bool check_unhex_string( const char* digits, const size_t n )
{
   unsigned long long v = 0;
   if( !oracle_hex_value( digits, n, v ) || n > 2 * sizeof( T ) ) {
      fprintf( stderr, "c17: unhex_string domain error\n" );  // the helper MUST only get hex digits
      exit( 2 );
   }
   const char* p = place( digits, n );
   g_cur_what = "unhex_string";
   g_cur_case = std::string( "unhexs:" ) + type_name< T >() + ":" + vf::hex( std::string( digits, n ) );
   const T r = pegtl::unescape::unhex_string< T >( p, p + n );
   g_cur_what = nullptr;
   ++vf::st.evaluations;
   ++n_unhex;
   // the value fits the type (at most 2 digits per byte); compare as unsigned bit patterns of the type's width
   using UT = std::make_unsigned_t< T >;
   if( n > 1 ) nontrivial( vf::fnv( digits, n, vf::hstr( type_name< T >() ) ) );
   if( static_cast< unsigned long long >( UT( r ) ) == static_cast< unsigned long long >( UT( v ) ) ) return true;
   vf::violation( std::string( "C17|unhex_string wrong value for " ) + type_name< T >(), "\"digits\":\"" + std::string( digits, n ) + "\",\"expected\":\"" + std::to_string( static_cast< unsigned long long >( UT( v ) ) ) + "\",\"observed\":\"" + std::to_string( static_cast< unsigned long long >( UT( r ) ) ) + "\"", g_cur_case );
   return false;
}

template< typename T >
static bool check_unhex_char( const char c )
{
   const int d = oracle_hex_digit( c );
   if( d < 0 ) {
      fprintf( stderr, "c17: unhex_char domain error\n" );  // "MUST only be called for characters matching xdigit"
      exit( 2 );
   }
   g_cur_what = "unhex_char";
   g_cur_case = std::string( "unhexc:" ) + type_name< T >() + ":" + vf::hex( std::string( 1, c ) );
   const T r = pegtl::unescape::unhex_char< T >( c );
   g_cur_what = nullptr;
   ++vf::st.evaluations;
   ++n_unhex;
   if( r == T( d ) ) return true;
   vf::violation( std::string( "C17|unhex_char wrong value for " ) + type_name< T >(), "\"digit\":\"" + std::string( 1, c ) + "\",\"expected\":\"" + std::to_string( d ) + "\",\"observed\":\"" + std::to_string( static_cast< long long >( r ) ) + "\"", std::string( "unhexc:" ) + type_name< T >() + ":" + vf::hex( std::string( 1, c ) ) );
   return false;
}

// =====================================================================================================
//  enumeration
// =====================================================================================================

static long g_item = 0;
static bool g_stop = false;

static inline bool mine()
{
   return ( g_item++ % vf::args.nshards ) == vf::args.shard;
}

static inline bool mine_outer( const unsigned long i )
{
   return long( i % unsigned( vf::args.nshards ) ) == vf::args.shard;
}

static inline bool tick()
{
   if( !g_stop && vf::out_of_time() ) g_stop = true;
   return g_stop;
}

// deadline check on every n-th call (independent of the loop index, which is correlated with the shard number)
static inline bool tick_every( const unsigned n )
{
   static unsigned long calls = 0;
   return ( ++calls % n == 0 ) ? tick() : g_stop;
}

static const std::string HEX22 = "0123456789abcdefABCDEF";

// all strings of length len over an alphabet (the shard's share)
template< typename Fn >
static void for_strings( const std::string& alphabet, const unsigned len, Fn&& fn )
{
   std::vector< unsigned > idx( len, 0 );
   std::string s( len, '?' );
   unsigned long k = 0;
   for( ;; ) {
      if( mine() ) {
         for( unsigned i = 0; i < len; ++i ) s[ i ] = alphabet[ idx[ i ] ];
         fn( s );
         if( ( ++k & 0x3FF ) == 0 && tick() ) return;
      }
      unsigned pos = len;
      while( pos > 0 ) {
         if( ++idx[ pos - 1 ] < alphabet.size() ) break;
         idx[ pos - 1 ] = 0;
         --pos;
      }
      if( pos == 0 ) return;
   }
}

static std::string hex4( const unsigned v )
{
   char b[ 8 ];
   snprintf( b, sizeof b, "%04x", v );
   return b;
}

static void t1_append()
{
   g_cur_what = "utf8_append_utf32";
   g_cur_is_append = true;
   struct Reset
   {
      ~Reset()
      {
         g_cur_what = nullptr;
         g_cur_is_append = false;
      }
   } reset;
   std::string scratch;
   const std::string ab = "ab", none;
   for( unsigned long hi = 0; hi < 65536; ++hi ) {
      if( !mine_outer( hi ) ) continue;
      for( unsigned long lo = 0; lo < 65536; ++lo ) {
         const unsigned cp = unsigned( ( hi << 16 ) | lo );
         check_append( cp, ab, scratch );
         if( cp <= 0x110100 ) {
            check_append( cp, none, scratch );
            if( cp >= 0x80 && ( cp & 0x7 ) == 0 ) nontrivial( vf::mix( 11, cp ) );
         }
      }
      if( tick_every( 16 ) ) return;
   }
   vf::count( "append.all_2^32_arguments_done", 1 );
}

template< typename T >
static void unhex_all( const std::string& alphabet, const unsigned from_len, const unsigned to_len )
{
   for( unsigned len = from_len; len <= to_len && !g_stop; ++len ) for_strings( alphabet, len, [ & ]( const std::string& s ) { check_unhex_string< T >( s.data(), s.size() ); } );
}

static void t2_unhex()
{
   for( const char c : HEX22 ) {
      if( !mine() ) continue;
      check_unhex_char< unsigned char >( c );
      check_unhex_char< char >( c );
      check_unhex_char< unsigned short >( c );
      check_unhex_char< unsigned >( c );
      check_unhex_char< int >( c );
      check_unhex_char< unsigned long long >( c );
   }
   unhex_all< unsigned char >( HEX22, 1, 2 );
   unhex_all< char >( HEX22, 1, 2 );
   unhex_all< unsigned short >( HEX22, 1, 4 );
   unhex_all< unsigned >( HEX22, 1, 5 );
   unhex_all< unsigned >( "01789aAfF", 6, 8 );
   unhex_all< int >( HEX22, 1, 4 );
   unhex_all< int >( "01789aAfF", 5, 7 );
   unhex_all< unsigned long long >( "0f", 1, 16 );
   unhex_all< unsigned long long >( "018aF", 1, 9 );
   // 16 digits, every byte (digit pair) from {00,01,7f,80,Fe,fF}
   static const char* const pairs[ 6 ] = { "00", "01", "7f", "80", "Fe", "fF" };
   for_strings( std::string( "\0\1\2\3\4\5", 6 ), 8, [ & ]( const std::string& sel ) {
      std::string s;
      for( const char k : sel ) s += pairs[ int( k ) ];
      check_unhex_string< unsigned long long >( s.data(), s.size() );
   } );
}

static void t3_x()
{
   const GramSpec& g = gram( "x" );
   for_strings( HEX22, 2, [ & ]( const std::string& d ) { check_grammar( g, "\\x" + d ); } );
}

static void t4_u()
{
   const GramSpec& g = gram( "u" );
   for_strings( HEX22, 4, [ & ]( const std::string& d ) { check_grammar( g, "\\u" + d ); } );
}

static void t5_U( const bool thorough )
{
   const GramSpec& g = gram( "U" );
   char b[ 16 ];
   for( unsigned long v = 0; v <= 0x11FFFF; ++v ) {
      if( !mine() ) continue;
      snprintf( b, sizeof b, "\\U%08lx", v );
      check_grammar( g, b );
      if( tick_every( 16 ) ) return;
   }
   // most of these are refused by an exception (about 5 us each), hence the thinner alphabet in the quick tier
   for_strings( thorough ? "0178dDefF" : "018dfF", 8, [ & ]( const std::string& d ) { check_grammar( g, "\\U" + d ); } );
}

static const std::vector< std::string > B18 = { "0000", "0001", "007F", "0080", "07FF", "0800", "D7FF", "D800", "DBFF", "DC00", "DFFF", "E000", "FFFF", "007f", "d800", "dBfF", "Dc00", "dfff" };
static const std::vector< unsigned > B13 = { 0x0000, 0x0001, 0x007F, 0x0080, 0x07FF, 0x0800, 0xD7FF, 0xD800, 0xDBFF, 0xDC00, 0xDFFF, 0xE000, 0xFFFF };

static void t6_j( const bool thorough )
{
   const GramSpec& g = gram( "j" );
   // single escapes, every spelling
   for_strings( HEX22, 4, [ & ]( const std::string& d ) { check_grammar( g, "\\u" + d ); } );
   // all sequences of 1..3 escapes over the boundary spellings
   for( const auto& a : B18 ) {
      if( mine() ) check_grammar( g, "\\u" + a );
      for( const auto& b : B18 ) {
         if( mine() ) check_grammar( g, "\\u" + a + "\\u" + b );
         for( const auto& c : B18 )
            if( mine() ) check_grammar( g, "\\u" + a + "\\u" + b + "\\u" + c );
      }
   }
   if( tick() ) return;
   // boundary x every surrogate x boundary
   for( unsigned s = 0xD800; s <= 0xDFFF; ++s ) {
      for( const unsigned a : B13 )
         for( const unsigned c : B13 )
            if( mine() ) check_grammar( g, "\\u" + hex4( a ) + "\\u" + hex4( s ) + "\\u" + hex4( c ) );
      if( tick_every( 16 ) ) return;
   }
   // pairs; pass 0: surrogate x surrogate, boundary x all, all x boundary (both tiers);
   //        pass 1 (thorough): every remaining pair - a deadline can only cut into this remainder
   std::string in = "\\u0000\\u0000";
   static const char* const lc = "0123456789abcdef";
   std::vector< bool > is_bnd( 65536, false );
   for( const unsigned v : B13 ) is_bnd[ v ] = true;
   for( int pass = 0; pass < ( thorough ? 2 : 1 ); ++pass ) {
      for( unsigned a = 0; a < 65536; ++a ) {
         if( !mine_outer( a ) ) continue;
         const bool a_sur = a >= 0xD800 && a <= 0xDFFF;
         for( int k = 0; k < 4; ++k ) in[ 2 + k ] = lc[ ( a >> ( 12 - 4 * k ) ) & 15 ];
         for( unsigned b = 0; b < 65536; ++b ) {
            const bool b_sur = b >= 0xD800 && b <= 0xDFFF;
            const bool in_pass0 = is_bnd[ a ] || is_bnd[ b ] || ( a_sur && b_sur );
            if( in_pass0 != ( pass == 0 ) ) continue;
            for( int k = 0; k < 4; ++k ) in[ 8 + k ] = lc[ ( b >> ( 12 - 4 * k ) ) & 15 ];
            check_grammar( g, in );
         }
         if( tick() ) return;
      }
      if( pass == 0 ) vf::count( "unescape_j.all_surrogate_x_surrogate_pairs_done", 1 );
   }
   if( thorough ) vf::count( "unescape_j.all_2^32_pairs_of_escapes_done", 1 );
}

// all sequences of 1..maxlen pieces
static void for_piece_sequences( const GramSpec& g, const std::vector< std::string >& pieces, const unsigned maxlen, const std::string& open, const std::string& close )
{
   for( unsigned len = 1; len <= maxlen && !g_stop; ++len ) {
      std::string alphabet;
      for( size_t i = 0; i < pieces.size(); ++i ) alphabet += char( i );
      for_strings( alphabet, len, [ & ]( const std::string& sel ) {
         std::string in = open;
         for( const char k : sel ) in += pieces[ size_t( u8( k ) ) ];
         in += close;
         check_grammar( g, in );
      } );
   }
}

static void t7_json()
{
   std::vector< std::string > pieces;
   for( const unsigned v : B13 ) pieces.push_back( "\\u" + hex4( v ) );
   pieces.push_back( "\\n" );
   pieces.push_back( "\\\\" );
   pieces.push_back( "\\/" );
   pieces.push_back( "z" );
   pieces.push_back( "\xC3\xA9" );          // U+00E9
   pieces.push_back( "\xE2\x82\xAC" );      // U+20AC
   pieces.push_back( "\xF0\x9F\x98\x80" );  // U+1F600
   for_piece_sequences( gram( "json" ), pieces, 3, "\"", "\"" );
   // all eight two-character escapes on their own
   for( const CPair& c : CMAP_JSON )
      if( mine() ) check_grammar( gram( "json" ), std::string( "\"\\" ) + char( c.from ) + "\"" );
}

static void t8_c()
{
   for( const char* id : { "c1", "c2", "c3" } )
      for( unsigned c = 0; c < 256; ++c )
         if( mine() ) check_grammar( gram( id ), std::string( "\\" ) + char( c ) );
}

static void t9_mix()
{
   const std::vector< std::string > pieces = { "\\jd83d", "\\jde00", "\\j00e9", "\\ud83d", "\\ude00", "\\u20ac", "\\U0001f600", "\\U00110000", "\\xe9", "\\t", "\xC3\xA9", "z" };
   for_piece_sequences( gram( "mix" ), pieces, 4, "", "" );
}

// =====================================================================================================

static void selfcheck_oracle_encoder()
{
   // the oracle encoder and the independent RFC 3629 section 4 table decoder must agree on every scalar value
   for( unsigned long cp = 0; cp <= 0x110000; ++cp ) {
      u8 b[ 4 ];
      const unsigned n = oracle_utf8_encode( cp, b );
      const bool scalar = cp <= 0x10FFFF && !( cp >= 0xD800 && cp <= 0xDFFF );
      unsigned long back = ~0ul;
      if( scalar != ( n != 0 ) || ( n && ( !selfcheck_utf8_decode( b, n, back ) || back != cp ) ) ) {
         fprintf( stderr, "c17: oracle self check failed at U+%lX\n", cp );
         exit( 2 );
      }
   }
}

template< typename T >
static bool replay_unhex( const std::string& ty, const std::string& kind, const std::string& payload )
{
   if( ty != type_name< T >() ) return false;
   if( kind == "unhexc" )
      check_unhex_char< T >( payload.at( 0 ) );
   else
      check_unhex_string< T >( payload.data(), payload.size() );
   return true;
}

static int replay()
{
   const auto f = vf::split( vf::args.the_case, ':' );
   if( f[ 0 ] == "append" && f.size() >= 2 ) {
      std::string scratch;
      check_append( unsigned( strtoul( f[ 1 ].c_str(), nullptr, 16 ) ), f.size() > 2 ? vf::unhex( f[ 2 ] ) : "", scratch );
   }
   else if( ( f[ 0 ] == "unhexc" || f[ 0 ] == "unhexs" ) && f.size() == 3 ) {
      const std::string payload = vf::unhex( f[ 2 ] );
      if( !( replay_unhex< unsigned char >( f[ 1 ], f[ 0 ], payload ) || replay_unhex< char >( f[ 1 ], f[ 0 ], payload ) || replay_unhex< unsigned short >( f[ 1 ], f[ 0 ], payload ) || replay_unhex< unsigned >( f[ 1 ], f[ 0 ], payload ) || replay_unhex< int >( f[ 1 ], f[ 0 ], payload ) || replay_unhex< unsigned long long >( f[ 1 ], f[ 0 ], payload ) ) ) {
         fprintf( stderr, "c17: unknown type %s\n", f[ 1 ].c_str() );
         return 2;
      }
   }
   else if( f[ 0 ] == "g" && f.size() == 3 ) {
      check_grammar( gram( f[ 1 ] ), vf::unhex( f[ 2 ] ) );
   }
   else {
      fprintf( stderr, "c17: cannot parse case '%s'\n", vf::args.the_case.c_str() );
      return 2;
   }
   vf::st.states = vf::st.transitions = vf::st.evaluations;
   vf::finish();
   return 0;
}

int main( int argc, char** argv )
{
   vf::parse_args( argc, argv );
   guard_init();
   selfcheck_oracle_encoder();
   if( vf::args.replay ) return replay();
   if( vf::args.nshards < 1 ) vf::args.nshards = 1;
   const bool thorough = vf::args.thorough();

   vf::st.note = std::string( "C17 " ) + ( thorough ? "thorough" : "quick" ) + ": utf8_append_utf32 for ALL 2^32 argument values (prefix 'ab'; 0..0x110100 also on an empty string); unhex_char all 22 digits x 6 types; unhex_string: uchar/char all 1-2 digit strings, ushort ALL 1-4 digit strings (22^4), unsigned all 1-5 digit strings + 6-8 digits over {0,1,7,8,9,a,A,f,F}, int up to 7 digits, ulonglong 16 digits with bytes from {00,01,7f,80,Fe,fF} + {0,f}^1..16 + {0,1,8,a,F}^1..9; unescape_x all 22^2; unescape_u \\uXXXX all 22^4 spellings, \\UXXXXXXXX all values 0..0x11FFFF + " + ( thorough ? "{0,1,7,8,d,D,e,f,F}^8" : "{0,1,8,d,f,F}^8" ) + "; unescape_j: all single escapes, ALL sequences of 1-3 escapes over 18 boundary spellings (0000 0001 007F 0080 07FF 0800 D7FF D800 DBFF DC00 DFFF E000 FFFF + case variants), boundary x every surrogate x boundary, " + ( thorough ? "ALL 2^32 pairs of escapes" : "all pairs surrogate x surrogate (2048^2) + boundary x all + all x boundary" ) + "; json::string with the json_unescape action set: all sequences of 1-3 pieces over 20 pieces; unescape_c: 3 tables x all 256 characters; contrib_unescape.cpp test grammar: all sequences of 1-4 pieces over 12 pieces. Driven through tao::pegtl::parse with action classes deriving from the helpers; inputs end at a PROT_NONE page.";

   check_grammar( gram( "j" ), "\\ud83d\\ude00", true );
   check_grammar( gram( "j" ), "\\ud83d\\u0041", true );
   check_grammar( gram( "json" ), "\"\\udbff\\udfff\\n\xE2\x82\xAC\"", true );
   check_grammar( gram( "U" ), "\\U00110000", true );
   check_grammar( gram( "c3" ), "\\0", true );
   check_grammar( gram( "mix" ), "\\jd83d\\jde00\\xe9", true );

   double t_prev = vf::elapsed();
   const auto lap = [ & ]( const char* name ) {
      vf::count( name, long( ( vf::elapsed() - t_prev ) * 1000 ) );
      t_prev = vf::elapsed();
   };
   // the six sample runs above are illustrations, not part of the enumerated domain
   vf::st.evaluations = 0;
   n_accept = n_reject_cp = n_reject_lang = n_reject_by_exception = n_reject_by_false = 0;

   t2_unhex();
   lap( "ms.t2_unhex" );
   if( !g_stop ) t3_x();
   if( !g_stop ) t4_u();
   lap( "ms.t3_t4_x_u" );
   if( !g_stop ) t5_U( thorough );
   lap( "ms.t5_U" );
   if( !g_stop ) t7_json();
   if( !g_stop ) t8_c();
   if( !g_stop ) t9_mix();
   lap( "ms.t7_t8_t9_json_c_mix" );
   if( !g_stop ) t1_append();
   lap( "ms.t1_append" );
   if( !g_stop ) t6_j( thorough );
   lap( "ms.t6_j" );

   vf::count( "append.scalar_values_encoded", n_app_ok );
   vf::count( "append.invalid_values_refused", n_app_refused );
   vf::count( "unhex.cases", n_unhex );
   vf::count( "grammar.accepted_with_exact_bytes", n_accept );
   vf::count( "grammar.expected_reject_invalid_code_point", n_reject_cp );
   vf::count( "grammar.expected_reject_not_in_language", n_reject_lang );
   vf::count( "grammar.rejected_by_parse_error", n_reject_by_exception );
   vf::count( "grammar.rejected_by_false", n_reject_by_false );
   vf::st.states = vf::st.transitions = vf::st.evaluations;
   vf::finish();
   return 0;
}
