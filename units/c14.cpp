// C14 -- "The shipped JSON grammar, followed by end of input, succeeds on a byte string if and only
// if that string is a well-formed UTF-8 encoded JSON text according to RFC 8259, and never throws."
//
// Library side : parse< seq< json::text, eof > >( memory_input<>( p, p + n, "src" ) ) in try/catch;
//                ANY exception is a violation.
// Reference    : lang/json_ref.hpp (RFC 8259 sections 2-7 + RFC 3629 section 4, one function per production).
//
// Every domain is ENUMERATED COMPLETELY (no sampling); the case index inside a domain is the odometer
// value, shard k processes the cases with  global_index % nshards == k.
//
// Token alphabet A (57 byte strings):
//     { } [ ] , :   " \ /   b f n r t u   a F g x   0 1 9   - + . e E
//     true false null tru fals nul        SP HT LF CR  FF(0x0C)        0x00 0x01 0x1F 0x7F
//     valid UTF-8   C3A9  E282AC  F09F9880  F48FBFBF(U+10FFFF)
//     invalid UTF-8 C0AF(overlong)  EDA080(surrogate)  E282(truncated)  F4908080(>U+10FFFF)  80  FF
//     escape bodies u00e9  uD83D  uDE00  u12(short)  u00eg(non-hex)
// Reduced alphabets:
//     R1 (26) = { } [ ] , : " \ u00e9 n 0 1 - . e true null SP LF a 0x1F C3A9 EDA080 E282 uD83D x
//     R1x(36) = R1 + / t E + 9 false HT CR F09F9880 C0AF
//     R2 (13) = { } [ ] , : " \ n a 1 true SP
//     R3 ( 8) = { } [ ] , : " 1
//
//   T1  token strings:  quick    all of length <= 4 over A, length 5    over R1, length 6..7 over R2, length 8..9  over R3
//                       thorough all of length <= 5 over A, length 5..6 over R1, length 6 over R1x, length 6..8 over R2, length 8..10 over R3
//   T2  byte-exhaustive string bodies  '"' b1 .. bk '"'  with every bi in 0x00..0xFF for k <= 3, and for k = 4
//          quick    b1 in {C2,DF,5C,E0..FF}, b2 any, b3 and b4 in the 13 boundary bytes 00 22 30 5C 7F 80 8F 90 9F A0 BF C0 FF
//          thorough b1 in {5C,80..FF},       b2 any, b3 in 39 bytes (every 8th value 00,08,..F8 and the boundary set), b4 in the boundary set
//       plus every byte string of length <= 2 (quick) / <= 3 (thorough) as the complete text (no quotes)
//   T3  all single token edits (delete a token, replace a token by / insert at every position each token of A)
//       of a corpus of valid documents that exercises every production; thorough: additionally all double edits
//       (second edit over R1) of the corpus documents of <= 24 tokens
//
// Each library run uses an exact-size malloc'ed buffer without terminator, and is repeated with the same bytes
// followed by poison tails ("1111" and 80 80 80 '"') that lie OUTSIDE [begin,end).
#include <cstdio>
#include <cstdlib>
#include <cstring>
#include <exception>
#include <string>
#include <vector>

#include <tao/pegtl.hpp>
#include <tao/pegtl/contrib/json.hpp>

#include "engine/common.hpp"
#include "lang/json_ref.hpp"

namespace pegtl = tao::pegtl;

namespace
{
   enum Outcome
   {
      REJECT = 0,
      ACCEPT = 1,
      THROWN_PARSE_ERROR = 2,
      THROWN_STD = 3,
      THROWN_OTHER = 4
   };

   const char* outcome_name( int o )
   {
      static const char* n[] = { "reject", "accept", "throws parse_error", "throws std::exception", "throws unknown exception" };
      return n[ o ];
   }

   std::string g_what;

   int run( const char* b, std::size_t n )
   {
      try {
         pegtl::memory_input<> in( b, b + n, "src" );
         return pegtl::parse< pegtl::seq< pegtl::json::text, pegtl::eof > >( in ) ? ACCEPT : REJECT;
      }
      catch( const pegtl::parse_error& e ) {
         g_what = e.what();
         return THROWN_PARSE_ERROR;
      }
      catch( const std::exception& e ) {
         g_what = e.what();
         return THROWN_STD;
      }
      catch( ... ) {
         g_what = "?";
         return THROWN_OTHER;
      }
   }

   // exact-size buffers, one per length, each malloc'ed with exactly n bytes
   char* exact_buffer( std::size_t n )
   {
      static std::vector< char* > bufs;
      if( bufs.size() <= n ) bufs.resize( n + 1, nullptr );
      if( !bufs[ n ] ) bufs[ n ] = static_cast< char* >( std::malloc( n ? n : 1 ) );
      return bufs[ n ];
   }

   int lib_exact( const std::string& s )
   {
      char* b = exact_buffer( s.size() );
      std::memcpy( b, s.data(), s.size() );
      return run( b, s.size() );
   }

   // input followed by a tail that is NOT part of the input
   int lib_tail( const std::string& s, const char* tail, std::size_t tail_len )
   {
      static char guard[ 1024 ];
      if( s.size() + 64 > sizeof guard ) return lib_exact( s );
      std::memcpy( guard, s.data(), s.size() );
      std::memset( guard + s.size(), 0, 64 );
      std::memcpy( guard + s.size(), tail, tail_len );
      return run( guard, s.size() );
   }

   jsonref::Recogniser J;
   const long g_cap = std::getenv( "VF_CAP" ) ? std::atol( std::getenv( "VF_CAP" ) ) : 3;  // V lines printed per signature
   long c_ref_accept = 0, c_ref_reject = 0, c_lib_accept = 0, c_nontrivial = 0, c_too_long = 0;

   // s: the text; last_token_offset: where the last token of the generating token string starts (for "non-trivial")
   void check( const std::string& s, std::size_t last_token_offset )
   {
      if( s.size() > jsonref::max_len ) {
         ++c_too_long;
         return;
      }
      ++vf::st.evaluations;
      ++vf::st.states;
      ++vf::st.transitions;
      J.load( s.data(), s.size() );
      const bool ref = J.is_json_text();
      ++( ref ? c_ref_accept : c_ref_reject );
      // non-trivial: a JSON text, or some partial derivation consumed everything before the last token
      if( ref || ( !s.empty() && jsonref::highest( J.reach ) >= int( last_token_offset ) && last_token_offset > 0 ) ) {
         ++c_nontrivial;
         if( vf::st.distinct.size() < 1500000 ) vf::nontrivial( vf::hstr( s ) );
      }
      const int a = lib_exact( s );
      const int p = lib_tail( s, "1111", 4 );
      const int q = lib_tail( s, "\x80\x80\x80\"", 4 );
      if( a == ACCEPT ) ++c_lib_accept;
      if( a == int( ref ) && p == int( ref ) && q == int( ref ) ) {
         if( ref && s.size() >= 6 && ( vf::st.samples.size() < 2 || ( s.size() >= 12 && vf::st.samples.size() < 5 ) ) )
            vf::sample( "{\"input\":\"" + vf::jesc( vf::show( s ) ) + "\",\"reference\":\"accept\",\"library\":\"accept\"}" );
         return;
      }
      const std::string cs = "text:" + vf::hex( s );
      const std::string common = "\"rule\":\"json::text eof\",\"input\":\"" + vf::jesc( vf::show( s ) ) + "\",\"hex\":\"" + vf::hex( s ) + "\",\"expected\":\"" + ( ref ? "accept" : "reject" ) + "\"";
      if( a >= THROWN_PARSE_ERROR || p >= THROWN_PARSE_ERROR || q >= THROWN_PARSE_ERROR ) {
         const int w = a >= THROWN_PARSE_ERROR ? a : ( p >= THROWN_PARSE_ERROR ? p : q );
         vf::count( "exceptions" );
         vf::violation( "C14|json::text throws an exception", common + ",\"observed\":\"" + outcome_name( w ) + "\",\"what\":\"" + vf::jesc( g_what ) + "\"", cs, g_cap );
         return;
      }
      const int z = lib_tail( s, "", 0 );
      if( a != p || a != q || a != z ) {
         vf::count( "overread_dependent" );
         vf::violation( "C14|outcome depends on bytes beyond the end of the input",
                        common + ",\"observed_exact_buffer\":\"" + outcome_name( a ) + "\",\"observed_tail_1111\":\"" + outcome_name( p ) + "\",\"observed_tail_808080quote\":\"" + outcome_name( q ) + "\",\"observed_tail_NUL\":\""
                           + outcome_name( z ) + "\"",
                        cs, g_cap );
         return;
      }
      if( ref ) {
         bool multibyte = false;
         for( unsigned char c : s ) multibyte |= ( c >= 0x80 );
         const bool uesc = s.find( "\\u" ) != std::string::npos;
         vf::count( "lib_rejects_valid" );
         vf::violation( std::string( "C14|json::text rejects a valid JSON text|" ) + ( multibyte ? "contains multi-byte UTF-8" : ( uesc ? "contains a \\u escape" : "ASCII without \\u escape" ) ),
                        common + ",\"observed\":\"reject\"", cs, g_cap );
      }
      else {
         J.load( s.data(), s.size() );
         const bool u8 = J.is_utf8();
         vf::count( "lib_accepts_invalid" );
         vf::violation( std::string( "C14|json::text accepts an invalid text|" ) + ( u8 ? "well-formed UTF-8 but not derivable from the RFC 8259 grammar" : "input is not well-formed UTF-8" ),
                        common + ",\"observed\":\"accept\"", cs, g_cap );
      }
   }

   // ---- alphabets -----------------------------------------------------------------------------
   using Tokens = std::vector< std::string >;

   Tokens alphabet_A()
   {
      Tokens t = { "{", "}", "[", "]", ",", ":", "\"", "\\", "/", "b", "f", "n", "r", "t", "u", "a", "F", "g", "x", "0", "1", "9", "-", "+", ".", "e", "E",
                   "true", "false", "null", "tru", "fals", "nul", " ", "\t", "\n", "\r", "\x0c" };
      t.push_back( std::string( 1, '\0' ) );
      t.push_back( "\x01" );
      t.push_back( "\x1f" );
      t.push_back( "\x7f" );
      t.push_back( "\xc3\xa9" );
      t.push_back( "\xe2\x82\xac" );
      t.push_back( "\xf0\x9f\x98\x80" );
      t.push_back( "\xf4\x8f\xbf\xbf" );
      t.push_back( "\xc0\xaf" );
      t.push_back( "\xed\xa0\x80" );
      t.push_back( "\xe2\x82" );
      t.push_back( "\xf4\x90\x80\x80" );
      t.push_back( "\x80" );
      t.push_back( "\xff" );
      t.push_back( "u00e9" );
      t.push_back( "uD83D" );
      t.push_back( "uDE00" );
      t.push_back( "u12" );
      t.push_back( "u00eg" );
      return t;
   }
   Tokens alphabet_R1()
   {
      return { "{", "}", "[", "]", ",", ":", "\"", "\\", "u00e9", "n", "0", "1", "-", ".", "e", "true", "null", " ", "\n", "a", "\x1f", "\xc3\xa9", "\xed\xa0\x80", "\xe2\x82", "uD83D", "x" };
   }
   Tokens alphabet_R1x()  // R1 + 10
   {
      Tokens t = alphabet_R1();
      for( const char* x : { "/", "t", "E", "+", "9", "false", "\t", "\r", "\xf0\x9f\x98\x80", "\xc0\xaf" } ) t.push_back( x );
      return t;
   }
   Tokens alphabet_R2()
   {
      return { "{", "}", "[", "]", ",", ":", "\"", "\\", "n", "a", "1", "true", " " };
   }
   Tokens alphabet_R3()
   {
      return { "{", "}", "[", "]", ",", ":", "\"", "1" };
   }

   unsigned long long g_base = 0;  // global case index of the first case of the current domain
   unsigned long long g_tick = 0;

   bool tick()
   {
      return ( ( ++g_tick & 0xfff ) == 0 ) && vf::out_of_time();
   }

   std::string g_domain_note;
   void domain_done( const char* name, bool ok )
   {
      static long last_states = 0;
      static double last_t = 0;
      vf::count( ( std::string( name ) + "_done" ).c_str(), ok );
      vf::count( ( std::string( name ) + "_strings" ).c_str(), vf::st.states - last_states );
      char b[ 96 ];
      snprintf( b, sizeof b, " %s=%ld strings/%.1fs", name, vf::st.states - last_states, vf::elapsed() - last_t );
      g_domain_note += b;
      last_states = vf::st.states;
      last_t = vf::elapsed();
   }

   // all token strings of exactly `len` tokens; shard by global index
   bool token_strings( const Tokens& tok, int len )
   {
      unsigned long long total = 1;
      for( int i = 0; i < len; ++i ) total *= tok.size();
      const unsigned long long ns = vf::args.nshards;
      const unsigned long long first = ( ( vf::args.shard + ns ) - ( g_base % ns ) ) % ns;
      std::string s;
      for( unsigned long long i = first; i < total; i += ns ) {
         unsigned long long v = i;
         s.clear();
         std::size_t last = 0;
         for( int k = 0; k < len; ++k ) {
            last = s.size();
            s += tok[ v % tok.size() ];
            v /= tok.size();
         }
         check( s, last );
         if( tick() ) return false;
      }
      g_base += total;
      return true;
   }

   // strings  pre b1 .. bk post  with bi from set[i]; shard by global index
   bool byte_product( const std::string& pre, const std::vector< std::vector< unsigned char > >& set, const std::string& post )
   {
      unsigned long long total = 1;
      for( const auto& v : set ) total *= v.size();
      const unsigned long long ns = vf::args.nshards;
      const unsigned long long first = ( ( vf::args.shard + ns ) - ( g_base % ns ) ) % ns;
      std::string s;
      for( unsigned long long i = first; i < total; i += ns ) {
         unsigned long long v = i;
         s = pre;
         for( const auto& b : set ) {
            s += char( b[ v % b.size() ] );
            v /= b.size();
         }
         s += post;
         check( s, s.size() - post.size() - ( set.empty() ? 0 : 1 ) );
         if( tick() ) return false;
      }
      g_base += total;
      return true;
   }

   std::vector< unsigned char > all_bytes()
   {
      std::vector< unsigned char > v;
      for( int i = 0; i < 256; ++i ) v.push_back( (unsigned char)i );
      return v;
   }

   // ---- corpus ----------------------------------------------------------------------------------
   const std::vector< std::string >& corpus()
   {
      static const std::vector< std::string > c = {
         "null",
         "true",
         "false",
         "0",
         "-0",
         "19",
         "-1.9e+10",
         "1E-9",
         "10.01e1",
         "0.0",
         "0e0",
         "\"\"",
         "\"a\"",
         "\"\\\"\\\\\\/\\b\\f\\n\\r\\t\"",
         "\"\\u00e9\\uD83D\\uDE00\"",
         "\"\\uD83D\"",
         "\"\\uDE00\\uD83D\"",
         "\"\\u00e9\\n\\u00e9x\"",
         "\"\\\\u00eg\"",
         "\"\xc3\xa9\xe2\x82\xac\xf0\x9f\x98\x80\xf4\x8f\xbf\xbf\"",
         "\"\x7f/ \"",
         "[]",
         "{}",
         "[[[[]]]]",
         "{\"a\":{\"a\":{\"a\":{\"a\":null}}}}",
         "[1,[0,[9,[true]]]]",
         "\t[\n1\r,\t0 ]\n",
         " { \"a\" : 1 , \"b\" : [ true , false , null ] } ",
         "{\"\":0}",
         "{\"a\":1,\"a\":0}",
         "[{\"a\":[{\"b\":[]}]},{}]",
         "[-0.0e-0,1e+1,9E9]",
         "{\"\xc3\xa9\":\"\\uDBFF\\uDFFF\"}",
         "[0,-1,1.9,\"x\",true,{\"g\":[null]}]",
         "[\"a\",\"\\n\",\"\\u00e9\"]\r\n",
      };
      return c;
   }

   // greedy longest-match tokenisation over A; bytes not starting any token become one-byte tokens
   Tokens tokenise( const std::string& d, const Tokens& A )
   {
      Tokens out;
      std::size_t i = 0;
      while( i < d.size() ) {
         std::size_t best = 0;
         for( const auto& t : A ) {
            if( t.size() > best && d.compare( i, t.size(), t ) == 0 ) best = t.size();
         }
         if( best == 0 ) best = 1;
         out.push_back( d.substr( i, best ) );
         i += best;
      }
      return out;
   }

   std::string join( const Tokens& t, std::size_t* last = nullptr )
   {
      std::string s;
      for( const auto& x : t ) {
         if( last ) *last = s.size();
         s += x;
      }
      return s;
   }

   // all single token edits of d over E: delete, replace, insert
   void single_edits( const Tokens& d, const Tokens& E, std::vector< Tokens >& out )
   {
      Tokens t;
      for( std::size_t i = 0; i < d.size(); ++i ) {
         t = d;
         t.erase( t.begin() + i );
         out.push_back( t );
      }
      for( std::size_t i = 0; i < d.size(); ++i ) {
         for( const auto& e : E ) {
            if( d[ i ] == e ) continue;
            t = d;
            t[ i ] = e;
            out.push_back( t );
         }
      }
      for( std::size_t i = 0; i <= d.size(); ++i ) {
         for( const auto& e : E ) {
            t = d;
            t.insert( t.begin() + i, e );
            out.push_back( t );
         }
      }
   }

   void replay()
   {
      const auto pos = vf::args.the_case.find( ':' );
      if( pos == std::string::npos ) return;
      const std::string s = vf::unhex( vf::args.the_case.substr( pos + 1 ) );
      check( s, s.empty() ? 0 : s.size() - 1 );
   }

   void flush_counters()
   {
      vf::count( "ref_accept", c_ref_accept );
      vf::count( "ref_reject", c_ref_reject );
      vf::count( "lib_accept", c_lib_accept );
      vf::count( "nontrivial_strings", c_nontrivial );
      if( c_too_long ) vf::count( "skipped_too_long", c_too_long );
   }

}  // namespace

int main( int argc, char** argv )
{
   vf::parse_args( argc, argv );
   if( vf::args.replay ) {
      replay();
      flush_counters();
      vf::finish();
      return 0;
   }
   const bool T = vf::args.thorough();
   bool ok = true;
   const Tokens A = alphabet_A(), R1 = alphabet_R1(), R2 = alphabet_R2(), R3 = alphabet_R3();

   // ---- T1: token strings ---------------------------------------------------------------------
   {
      const int LA = T ? 5 : 4;
      for( int len = 0; ok && len <= LA; ++len ) ok = token_strings( A, len );
      domain_done( "T1_A", ok );
      for( int len = 5; ok && len <= ( T ? 6 : 5 ); ++len ) ok = token_strings( R1, len );
      domain_done( "T1_R1", ok );
      if( T ) {
         if( ok ) ok = token_strings( alphabet_R1x(), 6 );
         domain_done( "T1_R1x", ok );
      }
      for( int len = 6; ok && len <= ( T ? 8 : 7 ); ++len ) ok = token_strings( R2, len );
      domain_done( "T1_R2", ok );
      for( int len = 8; ok && len <= ( T ? 10 : 9 ); ++len ) ok = token_strings( R3, len );
      domain_done( "T1_R3", ok );
   }

   // ---- T2: byte-exhaustive string bodies -----------------------------------------------------
   if( ok ) {
      const auto all = all_bytes();
      const std::vector< unsigned char > bnd = { 0x00, 0x22, 0x30, 0x5C, 0x7F, 0x80, 0x8F, 0x90, 0x9F, 0xA0, 0xBF, 0xC0, 0xFF };
      for( int k = 0; ok && k <= 3; ++k ) {
         ok = byte_product( "\"", std::vector< std::vector< unsigned char > >( k, all ), "\"" );
      }
      domain_done( "T2_body3", ok );
      if( ok ) {
         std::vector< unsigned char > b1, b3;
         if( T ) {
            b1.push_back( 0x5C );
            for( int i = 0x80; i < 0x100; ++i ) b1.push_back( (unsigned char)i );
            for( int i = 0; i < 256; i += 8 ) b3.push_back( (unsigned char)i );
            for( unsigned char c : bnd ) {
               if( c % 8 ) b3.push_back( c );
            }
         }
         else {
            b1 = { 0xC2, 0xDF, 0x5C };
            for( int i = 0xE0; i < 0x100; ++i ) b1.push_back( (unsigned char)i );
            b3 = bnd;
         }
         ok = byte_product( "\"", { b1, all, b3, bnd }, "\"" );
      }
      domain_done( "T2_body4", ok );
      for( int k = 1; ok && k <= ( T ? 3 : 2 ); ++k ) {
         ok = byte_product( "", std::vector< std::vector< unsigned char > >( k, all ), "" );
      }
      domain_done( "T2_bare", ok );
   }

   // ---- T3: corpus edits ----------------------------------------------------------------------
   if( ok ) {
      const unsigned long long ns = vf::args.nshards;
      auto mine = [ & ]() { return ( g_base++ % ns ) == (unsigned long long)vf::args.shard; };
      std::vector< Tokens > e1, e2;
      std::size_t last = 0;
      for( const std::string& d : corpus() ) {
         if( !ok ) break;
         // every corpus document must itself be a JSON text
         J.load( d.data(), d.size() );
         if( !J.is_json_text() ) vf::count( "corpus_entry_not_valid" );
         const Tokens dt = tokenise( d, A );
         if( mine() ) check( d, d.size() - dt.back().size() );
         e1.clear();
         single_edits( dt, A, e1 );
         for( const auto& t : e1 ) {
            if( !mine() ) continue;
            const std::string s = join( t, &last );
            check( s, last );
         }
         if( T && dt.size() <= 24 ) {  // thorough: all double edits (second edit over R1) of the documents of <= 24 tokens
            for( const auto& t : e1 ) {
               e2.clear();
               single_edits( t, R1, e2 );
               for( const auto& u : e2 ) {
                  if( !mine() ) continue;
                  const std::string s = join( u, &last );
                  check( s, last );
               }
               if( vf::out_of_time() ) ok = false;
               if( !ok ) break;
            }
         }
         if( vf::out_of_time() ) ok = false;
      }
      domain_done( "T3", ok );
   }

   const std::string nc = std::to_string( corpus().size() );
   const std::string note = T ? "thorough: T1 all token strings len<=5 over the 57-token alphabet A, len 5..6 over R1(26), len 6 over R1x(36), len 6..8 over R2(13), len 8..10 over R3(8); T2 all string bodies \"b1..bk\" k<=3 over all 256 byte values, k=4 with b1 in {5C,80..FF} x b2 any x b3 in 39 bytes x b4 in 13 boundary bytes, "
                                "all bare byte strings len<=3; T3 all single token edits over A of " + nc + " valid documents and all double edits (second edit over R1) of those with <=24 tokens; every library run repeated with two poison tails behind the input"
                              : "quick: T1 all token strings len<=4 over the 57-token alphabet A, len 5 over R1(26), len 6..7 over R2(13), len 8..9 over R3(8); T2 all string bodies \"b1..bk\" k<=3 over all 256 byte values, k=4 with b1 in {C2,DF,5C,E0..FF} x b2 any x b3,b4 in 13 boundary bytes, "
                                "all bare byte strings len<=2; T3 all single token edits over A of " + nc + " valid documents; every library run repeated with two poison tails behind the input";
   vf::st.note = note + "; this shard:" + g_domain_note;
   flush_counters();
   vf::finish();
   return 0;
}
