// C19 - "Error-reporting helpers return the exact source line of any position."
//
//   For every position obtained from a memory-based input during or after a parsing run, at()
//   points to the byte at that position, begin_of_line() and end_of_line() delimit exactly the
//   line containing it under the input's end-of-line policy, and line_at() returns exactly that
//   line's bytes; none of them ever yields a pointer outside the input data, including for inputs
//   constructed with non-default initial byte, line and column counters and for positions at the
//   very end.
//
// ENUMERATED DOMAIN (exhaustive, never sampled)
//   unit  = ( input data, eol policy, initial counters )
//           data    : every string over { 'a', '\n', '\r' } of length 0..6 (quick) / 0..8 (thorough)
//           policy  : eol::lf, eol::cr, eol::crlf, eol::lf_crlf, eol::cr_crlf
//           initial : (7,3,5) (7,1,1) (0,1,1)=default (0,3,1) (0,1,5)      [byte,line,column]
//                     default uses the 3-argument constructor, all others the constructor taking
//                     in_byte, in_line, in_column.  (7,1,1) / (0,3,1) / (0,1,5) vary ONE counter
//                     each so that every disagreement can be attributed to one root cause.
//   case  = unit x tracking_mode { eager, lazy } x consumed-prefix length k in 0..size
//           x position source
//               bump   : in.bump( k ); p = in.position()                      ("after a run")
//               error  : parse< seq< bytes< k >, must< failure > > >( in ), p = position_object()
//                        of the parse_error                                  ("during a run")
//               eolerr : parse< seq< until< stop_at_k, sor< eol, any > >, must< failure > > >,
//                        i.e. the prefix is consumed with the policy's own eol rule where it
//                        matches (bump_to_next_line) and byte-wise otherwise; skipped when the
//                        eol rule jumps over offset k (k inside a 2-byte line ending).
//               revisit: in.bump( k ), remember the inputerator, consume the rest, ask for the
//                        position at the end, then for the position of the remembered point
//                        (what action_input::position() does after later positions were taken)
//               restart: the input object is used twice: consume everything, restart (eager:
//                        restart( byte, line, column ) on an object constructed with OTHER
//                        counters; lazy: restart()), in.bump( k ); p = in.position()
//   The unit index (running number in enumeration order) modulo nshards selects the shard.
//
// ORACLE (independent of the library, see section "ORACLE" below)
//   (a) all cases: at(p) == begin()+k; at, begin_of_line, end_of_line, line_at().data() and
//       line_at().data()+size() all lie in [ begin(), end() ].
//   (b) exact line (begin_of_line, end_of_line, line_at) against an independent line splitter, on
//       inputs where "line" is unambiguous for the policy and for positions that are not strictly
//       inside a two-byte line ending.  See oracle_split() for the per-policy decision.  For
//       cr_crlf inputs containing "\r\n" BOTH defensible readings of "line" are accepted (see
//       oracle_split), so nothing is guessed there; define C19_STRICT_CR_CRLF to accept only the
//       reading "the LF after a CR belongs to the line ending".
//   (c) the same position (same data, k, source) must give the same line under eager and lazy
//       tracking (both claim to be "exactly that line's bytes").
//   aux byte() of the input must equal position().byte (auxiliary, own signature).
//
// MEMORY SAFETY
//   Returned pointers are never dereferenced; they are only converted to offsets relative to
//   begin().  end_of_line()/line_at() are called in-process only when at(p) lies inside
//   [begin,end] (then the scan provably stays inside: it starts inside and stops at end()).  When
//   at(p) is outside the data the calls are made in a forked child on a copy of the input placed
//   directly in front of an inaccessible page, so that a read behind the data faults
//   deterministically.  Exploration uses ONE child per unit: it re-obtains every position of the
//   unit, and for each distinct (tracking, byte, column) with an out-of-range at() calls
//   end_of_line() and line_at() under sigsetjmp with a SIGSEGV/SIGBUS handler and reports
//   "returned offset x" or "faulted" through a pipe (the helpers are pure functions of the
//   position, so identical positions share the result).  If such a child dies anyway, and always
//   in replay mode, one child per case is used and a fault simply terminates that child.  The
//   parent records a fault / a pointer outside the data as violation and never crashes itself.
#include <tao/pegtl.hpp>

#include "engine/common.hpp"

#include <cerrno>
#include <csetjmp>
#include <csignal>
#include <map>
#include <set>
#include <optional>
#include <sys/mman.h>
#include <sys/resource.h>
#include <sys/wait.h>
#include <tuple>
#include <unistd.h>
#include <utility>

namespace pegtl = tao::pegtl;

// =================================================================================================
// ORACLE  (written from the property text and doc/Inputs-and-Parsing.md, doc/Rule-Reference.md)
// =================================================================================================

enum Pol
{
   P_LF,
   P_CR,
   P_CRLF,
   P_LF_CRLF,
   P_CR_CRLF,
   P_COUNT
};
static const char* const POL_NAME[] = { "lf", "cr", "crlf", "lf_crlf", "cr_crlf" };

// "The supported line endings are cr, a single carriage-return, lf, a single line-feed, and crlf, a
// sequence of both"; lf_crlf "recognises both Unix and MS-DOS line endings"; cr_crlf by analogy
// recognises classic Mac OS and MS-DOS line endings.  Length of the line ending that starts at
// offset i under the policy (0 = none); for cr_crlf "\r\n" is ONE line ending (longest match).
static size_t oracle_eol_len( Pol p, const std::string& d, size_t i )
{
   const size_t n = d.size();
   if( i >= n ) return 0;
   const char c = d[ i ];
   const bool next_lf = ( i + 1 < n ) && ( d[ i + 1 ] == '\n' );
   switch( p ) {
      case P_LF:
         return c == '\n' ? 1 : 0;
      case P_CR:
         return c == '\r' ? 1 : 0;
      case P_CRLF:
         return ( c == '\r' && next_lf ) ? 2 : 0;
      case P_LF_CRLF:
         if( c == '\n' ) return 1;
         return ( c == '\r' && next_lf ) ? 2 : 0;
      case P_CR_CRLF:
         if( c == '\r' ) return next_lf ? 2 : 1;
         return 0;
      default:
         return 0;
   }
}

// The byte the policy uses "for line counting" (the line counter advances on this byte).
static char oracle_count_byte( Pol p )
{
   return ( p == P_CR || p == P_CR_CRLF ) ? '\r' : '\n';
}

enum Cls
{
   CLS_STRICT,  // "line" unambiguous: line-counting byte <=> last byte of a line ending
   CLS_PAIR,    // cr_crlf input containing "\r\n": two defensible readings of "line" (see oracle_split), both accepted
   CLS_AMBIG    // e.g. crlf policy with a lone '\n': counted as a line but not a line ending -> range checks only
};

struct LineMap
{
   std::vector< std::pair< size_t, size_t > > endings;  // [start, end) of every line ending, left to right
   Cls cls = CLS_STRICT;
};

// Independent splitter.  Line endings are found left to right with the policy's line-ending
// definition; lines are the maximal runs between line endings.
//
// Per-policy decision on when "line" is unambiguous (exact-line oracle applies):
//   lf       every '\n' is a line ending, '\r' is an ordinary byte            -> always unambiguous
//   cr       every '\r' is a line ending, '\n' is an ordinary byte            -> always unambiguous
//   crlf     "\r\n" is the only line ending.  A '\n' not preceded by '\r' advances the line
//            counter without being a line ending -> AMBIGUOUS, range checks only.  A '\r' not
//            followed by '\n' is neither counted nor a line ending: an ordinary byte.
//   lf_crlf  "\n" and "\r\n" are line endings, both end in the counting byte '\n'; a '\r' not
//            followed by '\n' is an ordinary byte                             -> always unambiguous
//            (positions between the '\r' and '\n' of an ending are skipped, see oracle_line)
//   cr_crlf  "\r" and "\r\n" are line endings.  Inputs without "\r\n" are strictly unambiguous.
//            Inputs with "\r\n" (class CLS_PAIR) violate "every line ending ends in the counting
//            byte": the doc says the policy selects "which line endings should be recognised by
//            the eol and eolf rules, and used for line counting", and the two halves of that
//            sentence disagree about the '\n' of a "\r\n":
//              reading E (eol rule):  the '\n' belongs to the line ending, the next line begins
//                                     after it;
//              reading C (counting):  the line counter advances on '\r', so the '\n' is column 1
//                                     of the next line.
//            Both readings agree on where every line ENDS (at the '\r') and on the begin of every
//            line that does not follow a "\r\n".  For a line that follows a "\r\n" the oracle
//            accepts begin_of_line / line_at().data() at either of the two offsets (ExpLine::bol
//            or ExpLine::bol - 1) and counts which one the library chose; it never guesses.
//            What is NOT acceptable under any reading is that the same position yields different
//            lines under eager and lazy tracking: that is check (c), with its own signature.
static LineMap oracle_split( Pol p, const std::string& d )
{
   LineMap lm;
   const size_t n = d.size();
   std::vector< char > last_of_ending( n + 1, 0 );
   bool pair = false;
   for( size_t i = 0; i < n; ) {
      const size_t l = oracle_eol_len( p, d, i );
      if( l ) {
         lm.endings.emplace_back( i, i + l );
         last_of_ending[ i + l - 1 ] = 1;
         if( p == P_CR_CRLF && l == 2 ) pair = true;
         i += l;
      }
      else
         ++i;
   }
   const char ch = oracle_count_byte( p );
   bool strict = true;
   for( size_t i = 0; i < n; ++i )
      if( ( d[ i ] == ch ) != ( last_of_ending[ i ] != 0 ) ) strict = false;
   lm.cls = strict ? CLS_STRICT : ( pair ? CLS_PAIR : CLS_AMBIG );
   if( !strict && pair ) {
      // cr_crlf: every '\r' starts an ending and every ending starts with '\r'; the only reason for
      // non-strictness is a two-byte ending.  Nothing else to verify.
   }
   return lm;
}

struct ExpLine
{
   bool valid = false;         // false: position strictly inside a two-byte line ending (ambiguous, skipped for exact checks)
   size_t bol = 0;             // offset of the first byte of the line containing the position
   size_t eol = 0;             // offset where the line's terminating line ending starts (or size)
   bool first_line = true;     // no line ending ends at or before the position
   bool after_pair = false;    // the line ending directly before this line is a two-byte cr_crlf ending: bol - 1 is accepted too (reading C)
};

// The line containing position k (0..n): a position exactly at the start of a line ending belongs
// to the line it terminates; a position directly after a line ending belongs to the next line; a
// position at n belongs to the last line.  The first line begins at offset 0 whatever the initial
// column of the input was (there is no data before begin()).
static ExpLine oracle_line( const LineMap& lm, Pol p, size_t n, size_t k )
{
   ExpLine e;
   e.valid = true;
   e.bol = 0;
   e.eol = n;
   bool have_eol = false;
   for( const auto& en : lm.endings ) {
      if( en.first < k && k < en.second ) e.valid = false;
      if( en.second <= k ) {
         e.bol = en.second;
         e.first_line = false;
         e.after_pair = ( p == P_CR_CRLF ) && ( en.second - en.first == 2 );
      }
      if( !have_eol && en.first >= k ) {
         e.eol = en.first;
         have_eol = true;
      }
   }
   return e;
}

// Is offset k reachable by consuming line endings as a whole (source "eolerr")?
static bool oracle_reachable_by_tokens( const LineMap& lm, size_t k )
{
   for( const auto& en : lm.endings )
      if( en.first < k && k < en.second ) return false;
   return true;
}

// =================================================================================================
// Domain description
// =================================================================================================

struct Init
{
   size_t byte, line, col;
   bool is_default() const { return byte == 0 && line == 1 && col == 1; }
   std::string str() const { return std::to_string( byte ) + "," + std::to_string( line ) + "," + std::to_string( col ); }
};
// byte != 0 first: these need forked children, which are cheapest while the heap is small
static const Init INITS[] = { { 7, 3, 5 }, { 7, 1, 1 }, { 0, 1, 1 }, { 0, 3, 1 }, { 0, 1, 5 } };
static const int N_INITS = 5;

static const char ALPHABET[ 3 ] = { 'a', '\n', '\r' };
static const size_t MAXLEN = 9;  // template dispatch limit for bytes< k >

enum Src
{
   S_BUMP,
   S_ERROR,
   S_EOLERR,
   S_REVISIT,
   S_RESTART,
   S_COUNT
};
static const char* const SRC_NAME[] = { "bump", "error", "eolerr", "revisit", "restart" };
static const char* const TRK_NAME[] = { "eager", "lazy" };

struct Unit
{
   std::string data;
   Pol pol;
   Init init;
   LineMap lm;
};

// =================================================================================================
// Library side: obtain a position the way a user would and call the four helpers
// =================================================================================================

static size_t g_target = 0;  // offset at which rule stop_at_k succeeds

struct stop_at_k
{
   using rule_t = stop_at_k;
   using subs_t = pegtl::empty_list;

   template< typename ParseInput >
   [[nodiscard]] static bool match( ParseInput& in ) noexcept
   {
      return std::size_t( in.current() - in.begin() ) >= g_target;
   }
};

template< std::size_t K >
struct prefix_then_fail : pegtl::seq< pegtl::bytes< K >, pegtl::must< pegtl::failure > >
{};

struct tokens_then_fail : pegtl::seq< pegtl::until< stop_at_k, pegtl::sor< pegtl::eol, pegtl::any > >, pegtl::must< pegtl::failure > >
{};

template< typename In, std::size_t... Ks >
static void parse_prefix_then_fail( In& in, std::size_t k, std::index_sequence< Ks... > )
{
   (void)( ( k == Ks ? ( (void)pegtl::parse< prefix_then_fail< Ks > >( in ), true ) : false ) || ... );
}

struct Obs
{
   bool got_position = false;
   size_t pbyte = 0, pline = 0, pcol = 0;
   size_t in_byte = 0;
   bool has_in_byte = false;
   long at_off = 0, bol_off = 0;
   bool inproc = false;  // end_of_line/line_at called in-process
   long eol_off = 0, la_off = 0;
   unsigned long la_size = 0;
   // results from forked children (only when at() is outside the data)
   bool forked = false, eol_crashed = false, eol_returned = false;
   bool la_tried = false, la_crashed = false, la_returned = false;
   int term_sig = 0;
};

struct ForkKey
{
   int trk;
   size_t pbyte, pcol;
   bool operator<( const ForkKey& r ) const { return std::tie( trk, pbyte, pcol ) < std::tie( r.trk, r.pbyte, r.pcol ); }
};

struct Rec
{
   int stage;  // 1 = end_of_line returned, 2 = line_at returned, -1 / -2 = the call faulted (mode 3 only; a = signal)
   int trk;
   size_t pbyte, pcol;
   long a;
   unsigned long b;
};

// fault recovery inside an expendable child (mode 3)
static sigjmp_buf g_jb;
static volatile sig_atomic_t g_fault_sig = 0;
static void on_fault( int s )
{
   g_fault_sig = s;
   siglongjmp( g_jb, 1 );
}
static std::set< ForkKey > g_child_seen;

// mode 0: parent (in-process, guarded: end_of_line/line_at only when at() is inside the data)
// mode 1: single-case child: call end_of_line then line_at unguarded, report through fd (a fault kills the child)
// mode 2: single-case child: call line_at only
// mode 3: unit child: for positions whose at() is outside the data call end_of_line and line_at, each under
//         sigsetjmp with a SIGSEGV/SIGBUS handler, report "returned x" or "faulted" per distinct position
template< pegtl::tracking_mode P, typename Eol >
static void observe( const char* b, size_t n, const Init& I, int src, size_t k, Obs& o, int mode, int fd )
{
   using In = pegtl::memory_input< P, Eol, std::string >;
   std::optional< In > oin;
   if( src == S_RESTART && P == pegtl::tracking_mode::eager )
      oin.emplace( b, b + n, "src", I.byte ? std::size_t( 0 ) : std::size_t( 1000 ), I.line + 40, I.col + 4 );  // other counters; restart( I ) follows
   else if( I.is_default() )
      oin.emplace( b, b + n, "src" );
   else
      oin.emplace( b, b + n, "src", I.byte, I.line, I.col );
   In& in = *oin;
   std::optional< pegtl::position > op;
   switch( src ) {
      case S_BUMP:
         in.bump( k );
         op.emplace( in.position() );
         o.in_byte = in.byte();
         o.has_in_byte = true;
         break;
      case S_ERROR:
         try {
            parse_prefix_then_fail( in, k, std::make_index_sequence< MAXLEN + 1 >() );
         }
         catch( const pegtl::parse_error& e ) {
            op.emplace( e.position_object() );
         }
         break;
      case S_REVISIT: {
         // the position of an earlier point (e.g. the begin of an action input) asked for after later ones were asked for
         in.bump( k );
         const auto it = in.inputerator();
         in.bump( n - k );
         (void)in.position();
         op.emplace( in.position( it ) );
         break;
      }
      case S_RESTART:
         // the same input object used for a second run: afterwards it behaves like an input constructed with I
         in.bump( n );
         (void)in.position();
         if constexpr( P == pegtl::tracking_mode::eager )
            in.restart( I.byte, I.line, I.col );
         else
            in.restart();
         in.bump( k );
         op.emplace( in.position() );
         o.in_byte = in.byte();
         o.has_in_byte = true;
         break;
      case S_EOLERR:
         g_target = k;
         try {
            (void)pegtl::parse< tokens_then_fail >( in );
         }
         catch( const pegtl::parse_error& e ) {
            op.emplace( e.position_object() );
         }
         break;
   }
   if( !op ) return;
   const pegtl::position& p = *op;
   o.got_position = true;
   o.pbyte = p.byte;
   o.pline = p.line;
   o.pcol = p.column;
   const std::intptr_t base = reinterpret_cast< std::intptr_t >( in.begin() );
   auto off = [ & ]( const char* q ) { return long( reinterpret_cast< std::intptr_t >( q ) - base ); };
   o.at_off = off( in.at( p ) );
   o.bol_off = off( in.begin_of_line( p ) );
   const bool at_inside = ( o.at_off >= 0 ) && ( o.at_off <= long( n ) );
   if( mode == 0 ) {
      if( at_inside ) {
         // the scan of end_of_line starts inside [begin,end] and terminates at end() at the latest
         o.inproc = true;
         o.eol_off = off( in.end_of_line( p ) );
         const std::string_view sv = in.line_at( p );
         o.la_off = off( sv.data() );
         o.la_size = sv.size();
      }
      return;
   }
   const int trk = ( P == pegtl::tracking_mode::lazy ) ? 1 : 0;
   if( mode == 3 ) {
      if( at_inside ) return;  // the parent handles these in-process
      if( !g_child_seen.insert( ForkKey{ trk, o.pbyte, o.pcol } ).second ) return;
      {
         Rec r{ 0, trk, o.pbyte, o.pcol, 0, 0 };
         if( sigsetjmp( g_jb, 1 ) == 0 ) {
            const long v = off( in.end_of_line( p ) );
            r.stage = 1;
            r.a = v;
         }
         else {
            r.stage = -1;
            r.a = long( g_fault_sig );
         }
         (void)!write( fd, &r, sizeof r );
      }
      {
         Rec r{ 0, trk, o.pbyte, o.pcol, 0, 0 };
         if( sigsetjmp( g_jb, 1 ) == 0 ) {
            const std::string_view sv = in.line_at( p );
            r.stage = 2;
            r.a = off( sv.data() );
            r.b = sv.size();
         }
         else {
            r.stage = -2;
            r.a = long( g_fault_sig );
         }
         (void)!write( fd, &r, sizeof r );
      }
      return;
   }
   if( mode == 1 ) {
      Rec r{ 1, trk, o.pbyte, o.pcol, off( in.end_of_line( p ) ), 0 };
      (void)!write( fd, &r, sizeof r );
   }
   const std::string_view sv = in.line_at( p );
   Rec r{ 2, trk, o.pbyte, o.pcol, off( sv.data() ), sv.size() };
   (void)!write( fd, &r, sizeof r );
}

template< typename Eol >
static void observe_t( int trk, const char* b, size_t n, const Init& I, int src, size_t k, Obs& o, int mode, int fd )
{
   if( trk == 0 )
      observe< pegtl::tracking_mode::eager, Eol >( b, n, I, src, k, o, mode, fd );
   else
      observe< pegtl::tracking_mode::lazy, Eol >( b, n, I, src, k, o, mode, fd );
}

static void observe_dyn( Pol pol, int trk, const char* b, size_t n, const Init& I, int src, size_t k, Obs& o, int mode, int fd )
{
   switch( pol ) {
      case P_LF:
         return observe_t< pegtl::eol::lf >( trk, b, n, I, src, k, o, mode, fd );
      case P_CR:
         return observe_t< pegtl::eol::cr >( trk, b, n, I, src, k, o, mode, fd );
      case P_CRLF:
         return observe_t< pegtl::eol::crlf >( trk, b, n, I, src, k, o, mode, fd );
      case P_LF_CRLF:
         return observe_t< pegtl::eol::lf_crlf >( trk, b, n, I, src, k, o, mode, fd );
      case P_CR_CRLF:
         return observe_t< pegtl::eol::cr_crlf >( trk, b, n, I, src, k, o, mode, fd );
      default:
         return;
   }
}

// ---- forked child on a guard-page buffer -----------------------------------------------------

static char* g_guard_end = nullptr;  // first byte of the inaccessible page; the child's input ends exactly here

static void setup_guard()
{
   const long pg = sysconf( _SC_PAGESIZE );
   void* m = mmap( nullptr, size_t( 2 * pg ), PROT_READ | PROT_WRITE, MAP_PRIVATE | MAP_ANONYMOUS, -1, 0 );
   if( m == MAP_FAILED ) return;
   memset( m, 'a', size_t( pg ) );
   if( mprotect( static_cast< char* >( m ) + pg, size_t( pg ), PROT_NONE ) != 0 ) return;
   g_guard_end = static_cast< char* >( m ) + pg;
}

struct ChildRes
{
   bool ok = false;  // fork worked
   bool eol_returned = false, la_returned = false;
   long eol_off = 0, la_off = 0;
   unsigned long la_size = 0;
   int term_sig = 0;
};

static ChildRes run_child( const Unit& u, int trk, int src, size_t k, int mode )
{
   ChildRes cr;
   if( !g_guard_end ) return cr;
   int fds[ 2 ];
   if( pipe( fds ) != 0 ) return cr;
   const pid_t pid = fork();
   if( pid < 0 ) {
      close( fds[ 0 ] );
      close( fds[ 1 ] );
      return cr;
   }
   if( pid == 0 ) {
      close( fds[ 0 ] );
      signal( SIGSEGV, SIG_DFL );
      signal( SIGBUS, SIG_DFL );
      alarm( 10 );
      const size_t n = u.data.size();
      char* b = g_guard_end - n;
      memcpy( b, u.data.data(), n );
      Obs o;
      observe_dyn( u.pol, trk, b, n, u.init, src, k, o, mode, fds[ 1 ] );
      _exit( 0 );
   }
   close( fds[ 1 ] );
   cr.ok = true;
   Rec r;
   for( ;; ) {
      size_t got = 0;
      while( got < sizeof r ) {
         const ssize_t x = read( fds[ 0 ], reinterpret_cast< char* >( &r ) + got, sizeof r - got );
         if( x <= 0 ) break;
         got += size_t( x );
      }
      if( got < sizeof r ) break;
      if( r.stage == 1 ) {
         cr.eol_returned = true;
         cr.eol_off = r.a;
      }
      else if( r.stage == 2 ) {
         cr.la_returned = true;
         cr.la_off = r.a;
         cr.la_size = r.b;
      }
   }
   close( fds[ 0 ] );
   int status = 0;
   while( waitpid( pid, &status, 0 ) < 0 && errno == EINTR ) {
   }
   if( WIFSIGNALED( status ) ) cr.term_sig = WTERMSIG( status );
   return cr;
}

static bool oracle_reachable_by_tokens( const LineMap& lm, size_t k );

// One child for a whole unit: every position (both tracking modes, every k, every source) whose at() lies
// outside the data.  Faults are caught inside the child (mode 3); should the recovery itself fail the child
// dies, the parent then misses some keys and falls back to one child per case (run_child).
static bool run_unit_child( const Unit& u, std::map< ForkKey, Obs >& cache )
{
   if( !g_guard_end ) return false;
   int fds[ 2 ];
   if( pipe( fds ) != 0 ) return false;
   const pid_t pid = fork();
   if( pid < 0 ) {
      close( fds[ 0 ] );
      close( fds[ 1 ] );
      return false;
   }
   if( pid == 0 ) {
      close( fds[ 0 ] );
      struct sigaction sa;
      memset( &sa, 0, sizeof sa );
      sa.sa_handler = on_fault;
      sigemptyset( &sa.sa_mask );
      sigaction( SIGSEGV, &sa, nullptr );
      sigaction( SIGBUS, &sa, nullptr );
      alarm( 20 );
      const size_t n = u.data.size();
      char* b = g_guard_end - n;
      memcpy( b, u.data.data(), n );
      for( int trk = 0; trk < 2; ++trk )
         for( size_t k = 0; k <= n; ++k )
            for( int src = 0; src < S_COUNT; ++src ) {
               if( src == S_EOLERR && !oracle_reachable_by_tokens( u.lm, k ) ) continue;
               Obs o;
               observe_dyn( u.pol, trk, b, n, u.init, src, k, o, 3, fds[ 1 ] );
            }
      _exit( 0 );
   }
   close( fds[ 1 ] );
   Rec r;
   for( ;; ) {
      size_t got = 0;
      while( got < sizeof r ) {
         const ssize_t x = read( fds[ 0 ], reinterpret_cast< char* >( &r ) + got, sizeof r - got );
         if( x <= 0 ) break;
         got += size_t( x );
      }
      if( got < sizeof r ) break;
      Obs& o = cache[ ForkKey{ r.trk, r.pbyte, r.pcol } ];
      o.forked = true;
      switch( r.stage ) {
         case 1:
            o.eol_returned = true;
            o.eol_off = r.a;
            break;
         case -1:
            o.eol_crashed = true;
            o.term_sig = int( r.a );
            break;
         case 2:
            o.la_tried = true;
            o.la_returned = true;
            o.la_off = r.a;
            o.la_size = r.b;
            break;
         case -2:
            o.la_tried = true;
            o.la_crashed = true;
            o.term_sig = int( r.a );
            break;
      }
   }
   close( fds[ 0 ] );
   int status = 0;
   while( waitpid( pid, &status, 0 ) < 0 && errno == EINTR ) {
   }
   if( WIFSIGNALED( status ) ) vf::count( "unit children that died (fallback to one child per case)" );
   return true;
}

// =================================================================================================
// Checking
// =================================================================================================

static std::string case_string( const Unit& u, const char* trk, int src, size_t k )
{
   return vf::hex( u.data ) + "|" + POL_NAME[ u.pol ] + "|" + trk + "|" + u.init.str() + "|" + std::to_string( k ) + "|" + SRC_NAME[ src ];
}

static const char* const CIRC_BYTE = "input constructed with a non-zero initial byte";
static const char* const CIRC_COL = "first line of an input constructed with a non-1 initial column";
static const char* const CIRC_PAIR_DEFAULT = "cr_crlf input, line after a CRLF line ending (the LF of the ending is counted as a column), default initial counters";
static const char* const CIRC_PAIR_NONDEF = "cr_crlf input, line after a CRLF line ending (the LF of the ending is counted as a column), non-default initial line or column";
static const char* const CIRC_DEFAULT = "default initial counters";
static const char* const CIRC_OTHER = "non-default initial counters, not attributable to initial byte or column";

static std::string g_emit_trk;  // replay: only emit violations of this tracking label ("" = all)
static long g_la_forks = 0;     // extra children for line_at after end_of_line crashed (bounded per shard)

struct Ctx
{
   const Unit& u;
   const char* trk;
   int src;
   size_t k;
   const Obs& o;
   const ExpLine& e;
   bool first_line;
};

static void emit( const Ctx& c, const std::string& helper_and_verdict, const char* circ, const std::string& expected, const std::string& observed )
{
   if( !g_emit_trk.empty() && g_emit_trk != c.trk ) return;
   const std::string sig = "C19|" + helper_and_verdict + ": " + circ;
   const auto seen = vf::st.viol_by_sig.find( sig );
   const bool printed = ( seen == vf::st.viol_by_sig.end() ) || ( seen->second < 3 );  // vf::violation prints the first 3 per signature
   const std::string detail = !printed ? std::string() : "\"input\":\"" + vf::jesc( vf::show( c.u.data ) ) + "\",\"size\":\"" + std::to_string( c.u.data.size() ) + "\",\"policy\":\"" + POL_NAME[ c.u.pol ] + "\",\"tracking\":\"" + c.trk + "\",\"initial\":\"" + c.u.init.str() + "\",\"k\":\"" + std::to_string( c.k ) + "\",\"source\":\"" + SRC_NAME[ c.src ] + "\",\"position\":\"byte " + std::to_string( c.o.pbyte ) + " line " + std::to_string( c.o.pline ) + " column " + std::to_string( c.o.pcol ) + "\",\"expected\":\"" + vf::jesc( expected ) + "\",\"observed\":\"" + vf::jesc( observed ) + "\"";
   vf::violation( sig, detail, printed ? case_string( c.u, c.trk, c.src, c.k ) : std::string() );
   if( circ == CIRC_PAIR_DEFAULT || circ == CIRC_PAIR_NONDEF ) vf::count( ( std::string( "cr_crlf-after-CRLF violations by tracking/source: " ) + c.trk + "/" + SRC_NAME[ c.src ] ).c_str() );
   if( c.u.init.is_default() )
      vf::count( "violations with default initial counters" );
   else
      vf::count( "violations with non-default initial counters" );
   vf::count( ( "violations with initial counters " + c.u.init.str() + ( c.u.pol == P_CR_CRLF && c.u.lm.cls == CLS_PAIR ? " (cr_crlf input containing CRLF)" : " (other inputs)" ) ).c_str() );
}

// name ONE contributing root cause, in fixed priority
static const char* circumstance( const Ctx& c, bool byte_relevant, bool col_relevant, bool pair_relevant )
{
   if( byte_relevant && c.u.init.byte != 0 ) return CIRC_BYTE;
   if( col_relevant && c.u.init.col != 1 && c.first_line ) return CIRC_COL;
   if( pair_relevant && c.e.valid && c.e.after_pair ) return c.u.init.is_default() ? CIRC_PAIR_DEFAULT : CIRC_PAIR_NONDEF;
   return c.u.init.is_default() ? CIRC_DEFAULT : CIRC_OTHER;
}

static std::string offs( long v )
{
   return "begin" + std::string( v < 0 ? "" : "+" ) + std::to_string( v );
}

// one case: returns number of violations emitted (for the clean-case statistics)
static void check_case( const Unit& u, const char* trk, int src, size_t k, const Obs& o, const ExpLine& e )
{
   const long n = long( u.data.size() );
   bool first_line = e.first_line;
   if( !e.valid ) {
      // position inside a 2-byte ending: fall back to "no counting byte consumed yet" (only used to NAME the cause)
      first_line = true;
      for( size_t i = 0; i < k; ++i )
         if( u.data[ i ] == oracle_count_byte( u.pol ) ) first_line = false;
   }
   const Ctx c{ u, trk, src, k, o, e, first_line };
   const bool exact = e.valid && ( u.lm.cls == CLS_STRICT || u.lm.cls == CLS_PAIR );
#ifdef C19_STRICT_CR_CRLF
   const bool alt = false;
#else
   const bool alt = exact && e.after_pair;  // reading C: the line begins at the LF of the preceding CRLF
#endif
   auto bol_ok = [ & ]( long v ) { return v == long( e.bol ) || ( alt && v == long( e.bol ) - 1 ); };
   const std::string bol_exp = offs( long( e.bol ) ) + ( alt ? " (or " + offs( long( e.bol ) - 1 ) + ")" : "" );
   auto inside = [ & ]( long v ) { return v >= 0 && v <= n; };

   // ---- at() --------------------------------------------------------------------------------
   if( !inside( o.at_off ) )
      emit( c, "at() yields a pointer outside the input data", circumstance( c, true, false, false ), offs( long( k ) ), offs( o.at_off ) );
   else if( o.at_off != long( k ) )
      emit( c, "at() does not point to the byte at the position", circumstance( c, true, false, false ), offs( long( k ) ), offs( o.at_off ) );

   // ---- begin_of_line() ---------------------------------------------------------------------
   if( !inside( o.bol_off ) )
      emit( c, "begin_of_line() yields a pointer outside the input data", circumstance( c, true, true, true ), exact ? bol_exp : "inside [begin,end]", offs( o.bol_off ) );
   else if( exact && !bol_ok( o.bol_off ) )
      emit( c, "begin_of_line() is not the first byte of the line", circumstance( c, true, true, true ), bol_exp, offs( o.bol_off ) );
   else if( exact && e.after_pair && c.u.init.byte == 0 )
      vf::count( ( std::string( o.bol_off == long( e.bol ) ? "cr_crlf line after CRLF: line begins AFTER the LF (reading E): " : "cr_crlf line after CRLF: line begins AT the LF (reading C): " ) + trk + "/" + SRC_NAME[ src ] ).c_str() );

   // ---- end_of_line() -----------------------------------------------------------------------
   if( o.inproc ) {
      if( !inside( o.eol_off ) )
         emit( c, "end_of_line() yields a pointer outside the input data", circumstance( c, true, false, true ), exact ? offs( long( e.eol ) ) : "inside [begin,end]", offs( o.eol_off ) );
      else if( exact && o.eol_off != long( e.eol ) )
         emit( c, "end_of_line() is not the end of the line", circumstance( c, true, false, true ), offs( long( e.eol ) ), offs( o.eol_off ) );
   }
   else if( o.forked ) {
      if( o.eol_crashed )
         emit( c, "end_of_line() crashes reading behind the input data (scan starts at the out-of-range at())", circumstance( c, true, false, false ), exact ? offs( long( e.eol ) ) : "inside [begin,end]", "signal " + std::to_string( o.term_sig ) + " on reading behind the data (child process, input placed directly before an inaccessible page)" );
      else if( o.eol_returned && !inside( o.eol_off ) )
         emit( c, "end_of_line() yields a pointer outside the input data", circumstance( c, true, false, true ), exact ? offs( long( e.eol ) ) : "inside [begin,end]", offs( o.eol_off ) );
      else if( o.eol_returned && exact && o.eol_off != long( e.eol ) )
         emit( c, "end_of_line() is not the end of the line", circumstance( c, true, false, true ), offs( long( e.eol ) ), offs( o.eol_off ) );
   }

   // ---- line_at() ---------------------------------------------------------------------------
   const bool have_la = o.inproc || o.la_returned;
   if( have_la ) {
      const bool la_inside = inside( o.la_off ) && ( o.la_size <= static_cast< unsigned long >( n ) ) && inside( o.la_off + long( o.la_size ) );
      const std::string obs = "data " + offs( o.la_off ) + " size " + std::to_string( o.la_size );
      const std::string exp = exact ? "data " + bol_exp + " up to " + offs( long( e.eol ) ) : std::string( "a range inside [begin,end]" );
      if( !la_inside )
         emit( c, "line_at() yields a view outside the input data", circumstance( c, true, true, true ), exp, obs );
      else if( exact && ( !bol_ok( o.la_off ) || o.la_off + long( o.la_size ) != long( e.eol ) ) )
         emit( c, "line_at() is not exactly the line's bytes", circumstance( c, true, true, true ), exp, obs );
   }
   else if( o.la_tried && o.la_crashed ) {
      emit( c, "line_at() crashes reading behind the input data (scan starts at the out-of-range at())", circumstance( c, true, false, false ), "a range inside [begin,end]", "signal " + std::to_string( o.term_sig ) + " on reading behind the data (child process, input placed directly before an inaccessible page)" );
   }

   // ---- aux: byte() of the input vs position().byte -------------------------------------------
   if( o.has_in_byte && o.in_byte != o.pbyte ) {
      const bool lazy = std::string( trk ) == "lazy";
      if( lazy && u.init.byte != 0 )
         emit( c, "aux: byte() of a lazy input differs from position().byte", CIRC_BYTE, std::to_string( o.pbyte ), std::to_string( o.in_byte ) );
      else
         emit( c, std::string( "aux: byte() of the input differs from position().byte, " ) + trk + " tracking", circumstance( c, true, false, false ), std::to_string( o.pbyte ), std::to_string( o.in_byte ) );
   }
}

// (c) eager and lazy must describe the same line for the same position
static void check_eager_vs_lazy( const Unit& u, int src, size_t k, const Obs& oe, const Obs& ol, const ExpLine& e )
{
   if( !oe.got_position || !ol.got_position ) return;
   if( !oe.inproc || !ol.inproc ) return;
   if( oe.bol_off == ol.bol_off && oe.eol_off == ol.eol_off && oe.la_off == ol.la_off && oe.la_size == ol.la_size ) return;
   const Ctx c{ u, "eager+lazy", src, k, oe, e, e.first_line };
   const char* circ = ( u.pol == P_CR_CRLF && u.lm.cls == CLS_PAIR ) ? ( u.init.is_default() ? "cr_crlf input containing CRLF (eol rule sets column 1 after CRLF, lazy recount gives column 2), default initial counters" : "cr_crlf input containing CRLF (eol rule sets column 1 after CRLF, lazy recount gives column 2), non-default initial counters" ) : ( u.init.is_default() ? CIRC_DEFAULT : CIRC_OTHER );
   emit( c, "line_at() differs between eager and lazy tracking for the same position", circ,
         "identical lines; eager: column " + std::to_string( oe.pcol ) + " line [" + offs( oe.bol_off ) + "," + offs( oe.eol_off ) + ")",
         "lazy: column " + std::to_string( ol.pcol ) + " line [" + offs( ol.bol_off ) + "," + offs( ol.eol_off ) + ")" );
}

// =================================================================================================
// Driver
// =================================================================================================

static void apply_child( Obs& o, const ChildRes& cr )
{
   o.forked = cr.ok;
   o.eol_returned = cr.eol_returned;
   o.eol_off = cr.eol_off;
   o.eol_crashed = cr.ok && !cr.eol_returned && cr.term_sig != 0;
   o.la_returned = cr.la_returned;
   o.la_off = cr.la_off;
   o.la_size = cr.la_size;
   o.term_sig = cr.term_sig;
}

// all cases of one (unit, k, src): both tracking modes
static void process_position( const Unit& u, size_t k, int src, std::map< ForkKey, Obs >& fork_cache, bool& unit_child_done, bool replay )
{
   const size_t n = u.data.size();
   if( src == S_EOLERR && !oracle_reachable_by_tokens( u.lm, k ) ) {
      vf::count( "skipped: offset k not reachable with the eol rule (inside a 2-byte ending)" );
      return;
   }
   const ExpLine e = oracle_line( u.lm, u.pol, n, k );
   // exact-size buffer without terminator
   char* buf = static_cast< char* >( malloc( n ? n : 1 ) );
   if( n ) memcpy( buf, u.data.data(), n );
   Obs obs[ 2 ];
   for( int trk = 0; trk < 2; ++trk ) {
      Obs& o = obs[ trk ];
      observe_dyn( u.pol, trk, buf, n, u.init, src, k, o, 0, -1 );
      ++vf::st.transitions;
      if( !o.got_position ) {
         vf::violation( "C19|harness: no position obtained (parse did not throw)", "\"policy\":\"" + std::string( POL_NAME[ u.pol ] ) + "\"", case_string( u, TRK_NAME[ trk ], src, k ) );
         continue;
      }
      ++vf::st.evaluations;
      vf::count( "cases" );
      vf::count( u.init.is_default() ? "cases with default initial counters" : "cases with non-default initial counters" );
      if( !o.inproc ) {
         // at() outside the data: end_of_line / line_at only in a child
         const ForkKey key{ trk, o.pbyte, o.pcol };
         if( !replay && !unit_child_done ) {
            unit_child_done = true;
            if( run_unit_child( u, fork_cache ) ) vf::count( "unit children forked (all positions of a unit with an out-of-range at())" );
         }
         auto it = fork_cache.find( key );
         if( it == fork_cache.end() ) {
            Obs r = o;
            const ChildRes cr = run_child( u, trk, src, k, 1 );
            vf::count( "single-case children forked (end_of_line on an out-of-range at())" );
            apply_child( r, cr );
            if( r.eol_crashed ) {
               vf::count( "single-case children crashed in end_of_line" );
               if( replay || g_la_forks < 64 ) {
                  ++g_la_forks;
                  const ChildRes c2 = run_child( u, trk, src, k, 2 );
                  vf::count( "children forked (line_at after end_of_line crashed)" );
                  r.la_tried = c2.ok;
                  r.la_returned = c2.la_returned;
                  r.la_off = c2.la_off;
                  r.la_size = c2.la_size;
                  r.la_crashed = c2.ok && !c2.la_returned && c2.term_sig != 0;
                  if( r.la_crashed ) r.term_sig = c2.term_sig;
               }
               else
                  vf::count( "line_at not called: end_of_line crashed for this position" );
            }
            else if( cr.ok )
               vf::count( "single-case children survived end_of_line" );
            else
               vf::count( "fork failed: end_of_line/line_at not called" );
            it = fork_cache.emplace( key, r ).first;
         }
         const Obs& r = it->second;
         vf::count( r.eol_crashed ? "cases: end_of_line faulted in the child" : "cases: end_of_line returned in the child" );
         o.forked = r.forked;
         o.eol_crashed = r.eol_crashed;
         o.eol_returned = r.eol_returned;
         o.eol_off = r.eol_off;
         o.la_tried = r.la_tried;
         o.la_crashed = r.la_crashed;
         o.la_returned = r.la_returned;
         o.la_off = r.la_off;
         o.la_size = r.la_size;
         o.term_sig = r.term_sig;
      }
      // statistics on which oracle applies
      if( !e.valid )
         vf::count( "range-only cases: position inside a 2-byte line ending" );
      else if( u.lm.cls == CLS_AMBIG )
         vf::count( "range-only cases: ambiguous input (crlf policy with lone LF)" );
      else if( u.lm.cls == CLS_PAIR )
         vf::count( "exact-line cases: cr_crlf input containing CRLF (both readings of the LF accepted)" );
      else
         vf::count( "exact-line cases: strictly unambiguous input" );

      const long before = vf::st.violations;
      check_case( u, TRK_NAME[ trk ], src, k, o, e );
      const bool clean = vf::st.violations == before;

      if( !u.lm.endings.empty() && k > 0 ) {
         uint64_t h = vf::hstr( u.data );
         h = vf::mix( h, uint64_t( u.pol ) * 1000003u + uint64_t( trk ) * 10007u + uint64_t( src ) * 101u + k );
         h = vf::mix( h, u.init.byte * 10000 + u.init.line * 100 + u.init.col );
         if( vf::st.distinct.size() < 2000000 ) vf::nontrivial( h );
         if( clean && o.inproc && e.valid && u.lm.endings.size() >= 2 && k >= 2 && ( h % 257 ) == 0 && vf::st.samples.size() < 6 ) {
            vf::sample( "{\"input\":\"" + vf::jesc( vf::show( u.data ) ) + "\",\"policy\":\"" + POL_NAME[ u.pol ] + "\",\"tracking\":\"" + TRK_NAME[ trk ] + "\",\"initial\":\"" + u.init.str() + "\",\"k\":" + std::to_string( k ) + ",\"source\":\"" + SRC_NAME[ src ] + "\",\"position\":\"" + std::to_string( o.pbyte ) + ":" + std::to_string( o.pline ) + ":" + std::to_string( o.pcol ) + "\",\"line_at\":\"[" + std::to_string( o.la_off ) + "," + std::to_string( o.la_off + long( o.la_size ) ) + ")\",\"oracle\":\"[" + std::to_string( e.bol ) + "," + std::to_string( e.eol ) + ")\"}" );
         }
      }
   }
   if( g_emit_trk.empty() || g_emit_trk == "eager+lazy" ) check_eager_vs_lazy( u, src, k, obs[ 0 ], obs[ 1 ], e );
   free( buf );
}

static void process_unit( const Unit& u )
{
   ++vf::st.states;
   std::map< ForkKey, Obs > fork_cache;
   bool unit_child_done = false;
   const size_t n = u.data.size();
   for( size_t k = 0; k <= n; ++k )
      for( int src = 0; src < S_COUNT; ++src )
         process_position( u, k, src, fork_cache, unit_child_done, false );
}

static int replay_case( const std::string& cs )
{
   const auto f = vf::split( cs, '|' );
   if( f.size() != 6 ) {
      printf( "bad case string\n" );
      return 0;
   }
   Unit u;
   u.data = vf::unhex( f[ 0 ] );
   int pol = -1;
   for( int i = 0; i < P_COUNT; ++i )
      if( f[ 1 ] == POL_NAME[ i ] ) pol = i;
   int src = -1;
   for( int i = 0; i < S_COUNT; ++i )
      if( f[ 5 ] == SRC_NAME[ i ] ) src = i;
   const auto c = vf::split( f[ 3 ], ',' );
   if( pol < 0 || src < 0 || c.size() != 3 || u.data.size() > MAXLEN ) {
      printf( "bad case string\n" );
      return 0;
   }
   u.pol = Pol( pol );
   u.init = Init{ size_t( atol( c[ 0 ].c_str() ) ), size_t( atol( c[ 1 ].c_str() ) ), size_t( atol( c[ 2 ].c_str() ) ) };
   if( u.init.line == 0 || u.init.col == 0 ) {
      printf( "bad case string\n" );
      return 0;
   }
   const size_t k = size_t( atol( f[ 4 ].c_str() ) );
   if( k > u.data.size() ) {
      printf( "bad case string\n" );
      return 0;
   }
   u.lm = oracle_split( u.pol, u.data );
   g_emit_trk = f[ 2 ];
   std::map< ForkKey, Obs > fork_cache;
   bool unit_child_done = true;  // replay: one real child per case, a fault terminates it
   process_position( u, k, src, fork_cache, unit_child_done, true );
   vf::finish();
   return 0;
}

int main( int argc, char** argv )
{
   vf::parse_args( argc, argv );
   // children that fault must not leave core files
   struct rlimit rl = { 0, 0 };
   setrlimit( RLIMIT_CORE, &rl );
   signal( SIGPIPE, SIG_IGN );
   setup_guard();
   if( vf::args.replay ) return replay_case( vf::args.the_case );

   const size_t maxlen = vf::args.thorough() ? 8 : 6;
   vf::st.note = std::string( "C19 " ) + ( vf::args.thorough() ? "thorough" : "quick" ) + ": all inputs over {a,LF,CR} of length 0.." + std::to_string( maxlen ) + " x 5 eol policies (lf cr crlf lf_crlf cr_crlf) x initial counters {(7,3,5),(7,1,1),default (0,1,1),(0,3,1),(0,1,5)} x eager/lazy x every k in 0..size x position sources {in.bump(k)+position(), parse_error of seq<bytes<k>,must<failure>>, parse_error after consuming the prefix with sor<eol,any>}; oracle: range + at()==begin+k on all cases, exact line vs independent splitter on unambiguous inputs (crlf policy with lone LF and positions inside a 2-byte ending: range only; cr_crlf inputs with CRLF: line begin accepted at or after the LF), same line under eager and lazy; end_of_line/line_at with out-of-range at() run in forked children on a guard-page buffer; shard = unit index % nshards";

   long unit_index = 0;
   bool stop = false;
   for( int ii = 0; ii < N_INITS && !stop; ++ii ) {
      for( size_t len = 0; len <= maxlen && !stop; ++len ) {
         size_t total = 1;
         for( size_t i = 0; i < len; ++i ) total *= 3;
         for( size_t idx = 0; idx < total && !stop; ++idx ) {
            std::string data( len, 'a' );
            size_t v = idx;
            for( size_t i = 0; i < len; ++i ) {
               data[ i ] = ALPHABET[ v % 3 ];
               v /= 3;
            }
            for( int pol = 0; pol < P_COUNT; ++pol ) {
               const long my = unit_index++;
               if( my % vf::args.nshards != vf::args.shard ) continue;
               if( ( vf::st.states & 63 ) == 0 && vf::out_of_time() ) {
                  stop = true;
                  break;
               }
               Unit u;
               u.data = data;
               u.pol = Pol( pol );
               u.init = INITS[ ii ];
               u.lm = oracle_split( u.pol, u.data );
               process_unit( u );
            }
         }
      }
   }
   vf::count( "units (input x policy x initial counters) in this shard", vf::st.states );
   vf::finish();
   return 0;
}
