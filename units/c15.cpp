// C15  "Integer rules and conversions are exact or report overflow"
//
//   The integer rules accept exactly the documented numeral syntax (optional sign where allowed, no
//   superfluous leading zeros) and, when converting, either store the mathematically exact value in the
//   target type or report overflow (exception, or local failure for the bounded rule); they never store a
//   wrapped or truncated value, for every integer type and every explicit maximum.
//
// Exhaustive comparison of <tao/pegtl/contrib/integer.hpp> against an independent oracle (decimal string ->
// unsigned __int128, compared against the limits of the target type / the Maximum template argument).
//
// FAMILIES (each is one way of driving the header; T over u8,u16,u32,u64 resp. i8,i16,i32,i64; Max over
// the per-type lists in register_all(): 0,1,9,10,11,99,100,101,... type max, around powers of ten)
//   unsigned_rule (no action) / signed_rule (no action)                 syntax only
//   unsigned_rule_with_action, signed_rule_with_action, maximum_rule_with_action<T,Max> in apply_mode::nothing
//   unsigned_rule+unsigned_action -> T         unsigned_rule_with_action -> T
//   unsigned_rule_old+unsigned_action -> T     (plus<digit>: leading zeros allowed, conversion must stay exact)
//   maximum_rule<T,Max>                        overflow = local failure
//   unsigned_rule+maximum_action<T,Max> -> T   unsigned_rule_old+maximum_action<T,Max> -> T
//   maximum_rule_with_action<T,Max> -> T       overflow = parse_error (or local failure, both accepted)
//   signed_rule+signed_action -> T   signed_rule_old+signed_action -> T   signed_rule_with_action -> T
//
// INPUT DOMAIN of a family with digit bound L:   prefix + digits + trailer, ALL combinations of
//   digits   : every digit string of length 0..L (leading zeros included; length 0 gives "", "+", "-x", ...)
//   core families (syntax-only, type-limit families, Max in {9, 100, type max}), digit length <= R:
//              prefix in { "", "+", "-", "--", "+-", " " }, trailer in { "", "x", "/", ":", "+", "-", "\0", "\xb0" }
//   otherwise: prefix in { "", "+", "-" }, trailer in { "", "x" }
//   plus the boundary neighbourhood list N (every family): for v in { limit-D..limit+D for limit in
//   2^7,2^8,2^15,2^16,2^31,2^32,2^63,2^64 ; 10^k-1,10^k,10^k+1 for k=0..21 ; every Max used +-2 } the strings
//   dec(v), dec(v) with any digit appended, any digit prepended (incl. '0'), last digit replaced; x prefix
//   { "", "+", "-" } x trailer { "", "x" }.
//
//   quick   : R = 4, D = 2;  L = 4 for 8-bit limits, for Max < 1000 and for limits wider than 16 bit (their
//             boundaries come from N);  L = 5 for 1000 <= Max <= 65534;  L = 6 for the u16/i16 type limits,
//             Max = 65535 (u16) and the syntax-only families. The two seq<> contexts are run for digit
//             lengths <= 4 and for N only (direct context: all lengths).
//   thorough: R = 5, D = 100; L one larger for the core families (5 / 7); seq<> contexts for digit lengths <= 5
//             and N.
//
// Every case = (family, input) is run on an exact-size buffer that ends at a PROT_NONE page, through
//   parse< R, A, normal, apply_mode, rewind_mode::required >             (cursor observed after failure)
//   parse< seq< R, eof >, ... >   and   parse< seq< R, one<'x'> >, ... > (consumption inside a sequence; for
//   the rule families proper, not for the *_old+action and unsigned_rule+maximum_action variants whose rule
//   is the same unsigned_rule / plus<digit>)
// A fault in the guard page is reported as C03 (over-read) and the case is re-run with one readable NUL
// byte after the input so that its functional result is still judged.
//
// Replay:  u_c15 case '<family>:<hex of input bytes>'       e.g.  'u8.maximum_rule<100>:313030'

#include <setjmp.h>
#include <signal.h>
#include <sys/mman.h>
#include <unistd.h>

#include <set>

#include <tao/pegtl.hpp>
#include <tao/pegtl/contrib/integer.hpp>

#include "engine/common.hpp"

namespace pegtl = tao::pegtl;
using u128 = unsigned __int128;

// =====================================================================================================
// ORACLE  (independent of the library; from the header's documented grammar and plain arithmetic)
// =====================================================================================================

enum class Syn
{
   unsigned_new,  // "0" | [1-9][0-9]*      ("New version that does not allow leading zeros.")
   signed_new,  // [+-]? unsigned_new
   unsigned_old,  // [0-9]+               ("Pre-3.0 version of this rule.")
   signed_old  // [+-]? [0-9]+
};

struct Num
{
   bool ok = false;
   size_t len = 0;  // bytes of the numeral including the sign
   bool neg = false;
   size_t dbeg = 0, dend = 0;  // the digits
};

static bool odigit( char c )
{
   return c >= '0' && c <= '9';
}

// integer.hpp: unsigned_rule_new : if_then_else< one<'0'>, not_at< digit >, plus< digit > >
//   -> a numeral is "0" not followed by a digit, or a maximal run of digits that does not start with '0';
//      '0' followed by a digit is NOT a numeral at all ("does not allow leading zeros"; the unit test expects
//      "000", "0127", "-01" to fail).
// signed_rule_new : seq< opt< one<'-','+'> >, <the above> >
// unsigned_rule_old : plus< digit >,  signed_rule_old : seq< opt< one<'-','+'> >, plus< digit > >
static Num orc_syntax( const std::string& s, Syn k )
{
   Num r;
   size_t p = 0;
   if( ( k == Syn::signed_new || k == Syn::signed_old ) && p < s.size() && ( s[ p ] == '+' || s[ p ] == '-' ) ) {
      r.neg = s[ p ] == '-';
      ++p;
   }
   r.dbeg = p;
   if( p >= s.size() || !odigit( s[ p ] ) ) return r;  // no digit -> no numeral
   if( k == Syn::unsigned_new || k == Syn::signed_new ) {
      if( s[ p ] == '0' ) {
         if( p + 1 < s.size() && odigit( s[ p + 1 ] ) ) return r;  // superfluous leading zero
         r.ok = true;
         r.dend = r.len = p + 1;
         return r;
      }
   }
   while( p < s.size() && odigit( s[ p ] ) ) ++p;
   r.ok = true;
   r.dend = r.len = p;
   return r;
}

// exact value of a digit string; saturates at 2^126 which is far above every limit that is compared
static u128 orc_value( const std::string& s, size_t b, size_t e )
{
   const u128 sat = u128( 1 ) << 126;
   u128 v = 0;
   for( size_t i = b; i < e; ++i ) {
      v = v * 10 + u128( s[ i ] - '0' );
      if( v >= sat ) return sat;
   }
   return v;
}

enum Policy
{
   P_SYNTAX,  // no conversion, any numeral is accepted whatever its size ("Does not check for any overflow.")
   P_THROW,  // overflow must be reported by parse_error ("Throws on overflow.")
   P_FAIL,  // maximum_rule: overflow is a local failure (unit test: max_seq_rule ... local_failure)
   P_EITHER  // maximum_rule_with_action: exception or local failure are both a report
};

enum
{
   E_REJECT,
   E_ACCEPT,
   E_OVERFLOW
};

struct Expect
{
   int kind = E_REJECT;
   size_t len = 0;
   bool neg = false;
   u128 mag = 0;
};

struct Obs
{
   bool faulted = false, fault_guard = false;
   bool threw = false, threw_other = false;
   bool result = false;
   long consumed = 0, byte = 0, line = 1, col = 1;
   bool neg = false;
   u128 mag = 0;
};

struct Family
{
   std::string name;  // unique, used in case strings:  "<type>.<rule>"
   std::string rule;  // name used in signatures (no type, no Max)
   std::string type;
   Syn syn;
   Policy pol;
   bool has_value;
   u128 maxpos, maxneg;  // largest representable magnitude for a non-negative / negative numeral
   int L;  // digit length bound (quick); thorough uses L+1
   bool rich;  // digit strings of length <= 4 (thorough 5) are combined with the rich prefix/trailer sets
   bool seqctx;  // also run inside seq< R, eof > and seq< R, one<'x'> >
   Obs ( *run )( const std::string& s, int ctx, bool slack, char slackbyte, long sentinel );
};

// "either store the mathematically exact value in the target type or report overflow"
static Expect orc_expect( const Family& f, const std::string& s )
{
   Expect e;
   const Num n = orc_syntax( s, f.syn );
   if( !n.ok ) return e;
   e.len = n.len;
   if( f.pol == P_SYNTAX ) {
      e.kind = E_ACCEPT;
      return e;
   }
   const u128 v = orc_value( s, n.dbeg, n.dend );
   const u128 lim = n.neg ? f.maxneg : f.maxpos;
   if( v > lim ) {
      e.kind = E_OVERFLOW;
      return e;
   }
   e.kind = E_ACCEPT;
   e.mag = v;
   e.neg = n.neg && v != 0;
   return e;
}

// =====================================================================================================
// LIBRARY SIDE
// =====================================================================================================

static char* g_guard = nullptr;
static sigjmp_buf g_jmp;
static volatile sig_atomic_t g_armed = 0;
static volatile sig_atomic_t g_fault_in_guard = 0;
static long g_page = 4096;
static long g_runs = 0, g_throws = 0;

static void on_segv( int, siginfo_t* si, void* )
{
   if( g_armed ) {
      const char* a = static_cast< const char* >( si->si_addr );
      g_fault_in_guard = ( a >= g_guard && a < g_guard + g_page ) ? 1 : 0;
      g_armed = 0;
      siglongjmp( g_jmp, 1 );
   }
   const char msg[] = "V\tC15|harness fault outside a guarded run\t{}\n";
   (void)!write( 1, msg, sizeof msg - 1 );
   _exit( 0 );
}

static void setup_guard()
{
   g_page = sysconf( _SC_PAGESIZE );
   char* m = static_cast< char* >( mmap( nullptr, 3 * g_page, PROT_READ | PROT_WRITE, MAP_PRIVATE | MAP_ANONYMOUS, -1, 0 ) );
   if( m == MAP_FAILED ) {
      perror( "mmap" );
      exit( 0 );
   }
   g_guard = m + 2 * g_page;
   mprotect( g_guard, g_page, PROT_NONE );
   struct sigaction sa;
   memset( &sa, 0, sizeof sa );
   sa.sa_sigaction = on_segv;
   sa.sa_flags = SA_SIGINFO | SA_NODEFER;
   sigaction( SIGSEGV, &sa, nullptr );
   sigaction( SIGBUS, &sa, nullptr );
}

// One library execution. slack=false: the input ends exactly at the inaccessible page.
template< typename Rule, template< typename... > class Act, pegtl::apply_mode A, typename... St >
static Obs exec( const std::string& s, bool slack, char slackbyte, St&... st )
{
   const size_t n = s.size();
   char* p = g_guard - n - ( slack ? 1 : 0 );
   memcpy( p, s.data(), n );
   if( slack ) p[ n ] = slackbyte;
   ++g_runs;
   if( sigsetjmp( g_jmp, 0 ) ) {
      Obs f;
      f.faulted = true;
      f.fault_guard = g_fault_in_guard;
      return f;
   }
   Obs o;
   g_armed = 1;
   try {
      pegtl::memory_input<> in( p, p + n, "src" );
      o.result = pegtl::parse< Rule, Act, pegtl::normal, A, pegtl::rewind_mode::required >( in, st... );
      o.consumed = long( in.current() - p );
      o.byte = long( in.byte() );
      o.line = long( in.line() );
      o.col = long( in.column() );
   }
   catch( const pegtl::parse_error& ) {
      o.threw = true;
      ++g_throws;
   }
   catch( ... ) {
      o.threw_other = true;
   }
   g_armed = 0;
   return o;
}

template< typename T >
static void read_value( Obs& o, T st )
{
   if constexpr( std::is_signed_v< T > ) {
      if( st < 0 ) {
         o.neg = true;
         o.mag = u128( -( (__int128)st ) );
         return;
      }
   }
   o.neg = false;
   o.mag = u128( st );
}

template< typename T, typename Rule, template< typename... > class Act, pegtl::apply_mode A, bool WithState >
static Obs run_family( const std::string& s, int ctx, bool slack, char slackbyte, long sentinel )
{
   using R1 = pegtl::seq< Rule, pegtl::eof >;
   using R2 = pegtl::seq< Rule, pegtl::one< 'x' > >;
   Obs o;
   if constexpr( WithState ) {
      T st = T( sentinel );
      switch( ctx ) {
         case 0:
            o = exec< Rule, Act, A >( s, slack, slackbyte, st );
            break;
         case 1:
            o = exec< R1, Act, A >( s, slack, slackbyte, st );
            break;
         default:
            o = exec< R2, Act, A >( s, slack, slackbyte, st );
            break;
      }
      read_value( o, st );
   }
   else {
      switch( ctx ) {
         case 0:
            o = exec< Rule, Act, A >( s, slack, slackbyte );
            break;
         case 1:
            o = exec< R1, Act, A >( s, slack, slackbyte );
            break;
         default:
            o = exec< R2, Act, A >( s, slack, slackbyte );
            break;
      }
   }
   return o;
}

// direct context only (keeps the number of template instantiations down for the many Max values)
template< typename T, typename Rule, template< typename... > class Act, pegtl::apply_mode A, bool WithState >
static Obs run_family_direct( const std::string& s, int /*ctx*/, bool slack, char slackbyte, long sentinel )
{
   Obs o;
   if constexpr( WithState ) {
      T st = T( sentinel );
      o = exec< Rule, Act, A >( s, slack, slackbyte, st );
      read_value( o, st );
   }
   else
      o = exec< Rule, Act, A >( s, slack, slackbyte );
   return o;
}

// ---- actions --------------------------------------------------------------------------------------------
template< typename R >
inline constexpr bool is_unsigned_syntax_rule = std::is_same_v< R, pegtl::unsigned_rule > || std::is_same_v< R, pegtl::unsigned_rule_old >;
template< typename R >
inline constexpr bool is_signed_syntax_rule = std::is_same_v< R, pegtl::signed_rule > || std::is_same_v< R, pegtl::signed_rule_old >;

template< typename R >
struct act_unsigned : std::conditional_t< is_unsigned_syntax_rule< R >, pegtl::unsigned_action, pegtl::nothing< R > >
{};
template< typename R >
struct act_signed : std::conditional_t< is_signed_syntax_rule< R >, pegtl::signed_action, pegtl::nothing< R > >
{};
template< typename T, T Max >
struct act_max
{
   template< typename R >
   struct type : std::conditional_t< is_unsigned_syntax_rule< R >, pegtl::maximum_action< T, Max >, pegtl::nothing< R > >
   {};
};

// =====================================================================================================
// REGISTRY
// =====================================================================================================

static std::vector< Family > g_fams;
static std::set< u128 > g_max_values;  // every Max in use, feeds the neighbourhood list

static std::string u128str( u128 v )
{
   if( v == 0 ) return "0";
   std::string r;
   while( v ) {
      r.insert( r.begin(), char( '0' + int( v % 10 ) ) );
      v /= 10;
   }
   return r;
}

static int ndigits( u128 v )
{
   return int( u128str( v ).size() );
}

template< typename T >
static const char* tname()
{
   if constexpr( std::is_same_v< T, std::uint8_t > ) return "u8";
   if constexpr( std::is_same_v< T, std::uint16_t > ) return "u16";
   if constexpr( std::is_same_v< T, std::uint32_t > ) return "u32";
   if constexpr( std::is_same_v< T, std::uint64_t > ) return "u64";
   if constexpr( std::is_same_v< T, std::int8_t > ) return "i8";
   if constexpr( std::is_same_v< T, std::int16_t > ) return "i16";
   if constexpr( std::is_same_v< T, std::int32_t > ) return "i32";
   if constexpr( std::is_same_v< T, std::int64_t > ) return "i64";
   return "?";
}

// digit bound for a target whose largest magnitude is lim: one digit more than the limit has, at least 4, at
// most cap; limits wider than 16 bit get 4 (their boundaries come from the neighbourhood list)
static int L_for( u128 lim, int cap )
{
   const int d = ndigits( lim ) + 1;
   return d < 4 ? 4 : ( d > cap ? ( lim <= 65535 ? cap : 4 ) : d );
}

static void add( const std::string& type, const std::string& rule, const std::string& suffix, Syn syn, Policy pol, bool has_value, u128 maxpos, u128 maxneg, int L, bool rich, bool seqctx, Obs ( *run )( const std::string&, int, bool, char, long ) )
{
   Family f;
   f.type = type;
   f.rule = rule;
   f.name = type + "." + rule + suffix;
   f.syn = syn;
   f.pol = pol;
   f.has_value = has_value;
   f.maxpos = maxpos;
   f.maxneg = maxneg;
   f.L = L;
   f.rich = rich;
   f.seqctx = seqctx;
   f.run = run;
   g_fams.push_back( f );
}

constexpr auto AA = pegtl::apply_mode::action;
constexpr auto AN = pegtl::apply_mode::nothing;

template< typename T >
static void reg_unsigned()
{
   const u128 mx = ( std::numeric_limits< T >::max )();
   const int L = L_for( mx, 6 );
   add( tname< T >(), "unsigned_rule+unsigned_action", "", Syn::unsigned_new, P_THROW, true, mx, 0, L, true, true, &run_family< T, pegtl::unsigned_rule, act_unsigned, AA, true > );
   add( tname< T >(), "unsigned_rule_old+unsigned_action", "", Syn::unsigned_old, P_THROW, true, mx, 0, L, true, false, &run_family_direct< T, pegtl::unsigned_rule_old, act_unsigned, AA, true > );
   add( tname< T >(), "unsigned_rule_with_action", "", Syn::unsigned_new, P_THROW, true, mx, 0, L, true, true, &run_family< T, pegtl::unsigned_rule_with_action, pegtl::nothing, AA, true > );
}

template< typename T >
static void reg_signed()
{
   const u128 mx = u128( ( std::numeric_limits< T >::max )() );
   const int L = L_for( mx, 6 );
   add( tname< T >(), "signed_rule+signed_action", "", Syn::signed_new, P_THROW, true, mx, mx + 1, L, true, true, &run_family< T, pegtl::signed_rule, act_signed, AA, true > );
   add( tname< T >(), "signed_rule_old+signed_action", "", Syn::signed_old, P_THROW, true, mx, mx + 1, L, true, false, &run_family_direct< T, pegtl::signed_rule_old, act_signed, AA, true > );
   add( tname< T >(), "signed_rule_with_action", "", Syn::signed_new, P_THROW, true, mx, mx + 1, L, true, true, &run_family< T, pegtl::signed_rule_with_action, pegtl::nothing, AA, true > );
}

template< typename T, int Cap, T Max >
static void reg_max()
{
   const u128 mx = Max;
   g_max_values.insert( mx );
   const std::string sfx = "<" + u128str( mx ) + ">";
   const int L = L_for( mx, Cap );
   const bool rich = Max == ( std::numeric_limits< T >::max )() || Max == 9 || Max == 100;
   using MR = pegtl::maximum_rule< T, Max >;
   using MRA = pegtl::maximum_rule_with_action< T, Max >;
   add( tname< T >(), "maximum_rule", sfx, Syn::unsigned_new, P_FAIL, false, mx, 0, L, rich, true, &run_family< T, MR, pegtl::nothing, AA, false > );
   add( tname< T >(), "unsigned_rule+maximum_action", sfx, Syn::unsigned_new, P_THROW, true, mx, 0, L, rich, false, &run_family_direct< T, pegtl::unsigned_rule, act_max< T, Max >::template type, AA, true > );
   add( tname< T >(), "unsigned_rule_old+maximum_action", sfx, Syn::unsigned_old, P_THROW, true, mx, 0, L, rich, false, &run_family_direct< T, pegtl::unsigned_rule_old, act_max< T, Max >::template type, AA, true > );
   add( tname< T >(), "maximum_rule_with_action", sfx, Syn::unsigned_new, P_EITHER, true, mx, 0, L, rich, true, &run_family< T, MRA, pegtl::nothing, AA, true > );
   add( tname< T >(), "maximum_rule_with_action(apply_mode::nothing)", sfx, Syn::unsigned_new, P_EITHER, false, mx, 0, L, rich, false, &run_family_direct< T, MRA, pegtl::nothing, AN, true > );
}

template< typename T, int Cap, T... Ms >
static void reg_max_list()
{
   ( reg_max< T, Cap, Ms >(), ... );
}

static void register_all()
{
   using u8 = std::uint8_t;
   using u16 = std::uint16_t;
   using u32 = std::uint32_t;
   using u64 = std::uint64_t;
   const u128 none = 0;
   // syntax only (type independent)
   add( "any", "unsigned_rule", "", Syn::unsigned_new, P_SYNTAX, false, none, none, 6, true, true, &run_family< int, pegtl::unsigned_rule, pegtl::nothing, AA, false > );
   add( "any", "signed_rule", "", Syn::signed_new, P_SYNTAX, false, none, none, 6, true, true, &run_family< int, pegtl::signed_rule, pegtl::nothing, AA, false > );
   add( "u16", "unsigned_rule_with_action(apply_mode::nothing)", "", Syn::unsigned_new, P_SYNTAX, false, none, none, 6, true, true, &run_family< u16, pegtl::unsigned_rule_with_action, pegtl::nothing, AN, true > );
   add( "i16", "signed_rule_with_action(apply_mode::nothing)", "", Syn::signed_new, P_SYNTAX, false, none, none, 6, true, true, &run_family< std::int16_t, pegtl::signed_rule_with_action, pegtl::nothing, AN, true > );

   reg_unsigned< u8 >();
   reg_unsigned< u16 >();
   reg_unsigned< u32 >();
   reg_unsigned< u64 >();
   reg_signed< std::int8_t >();
   reg_signed< std::int16_t >();
   reg_signed< std::int32_t >();
   reg_signed< std::int64_t >();

   reg_max_list< u8, 5, 0, 1, 9, 10, 11, 99, 100, 101, 127, 128, 199, 200, 249, 250, 254, 255 >();
   reg_max_list< u16, 5, 0, 9, 10, 99, 100, 101, 255, 256, 999, 1000, 9999, 10000, 10001, 65529, 65530, 65534 >();
   reg_max_list< u16, 6, 65535 >();
   reg_max_list< u32, 5, 0, 9, 10, 99, 100, 101, 255, 256, 999, 1000, 65535, 65536, 999999999u, 1000000000u, 1000000001u, 4294967289u, 4294967290u, 4294967294u, 4294967295u >();
   reg_max_list< u64, 5, 0, 9, 10, 99, 100, 101, 255, 256, 999, 1000, 4294967295ull, 4294967296ull, 9999999999999999999ull, 10000000000000000000ull, 10000000000000000001ull, 18446744073709551609ull, 18446744073709551610ull, 18446744073709551614ull, 18446744073709551615ull >();
}

// =====================================================================================================
// JUDGE
// =====================================================================================================

static std::string obs_str( const Obs& o, bool has_value )
{
   if( o.faulted ) return "fault";
   if( o.threw ) return "parse_error";
   if( o.threw_other ) return "other exception";
   std::string r = o.result ? "success" : "local failure";
   r += " consumed=" + std::to_string( o.consumed ) + " byte=" + std::to_string( o.byte ) + " line=" + std::to_string( o.line ) + " column=" + std::to_string( o.col );
   if( o.result && has_value ) r += " stored=" + std::string( o.neg ? "-" : "" ) + u128str( o.mag );
   return r;
}

static std::string exp_str( const Family& f, const Expect& e )
{
   if( e.kind == E_REJECT ) return "local failure, nothing consumed (not a numeral)";
   if( e.kind == E_OVERFLOW ) return std::string( "overflow report (" ) + ( f.pol == P_THROW ? "parse_error" : ( f.pol == P_FAIL ? "local failure" : "parse_error or local failure" ) ) + ")";
   std::string r = "success consumed=" + std::to_string( e.len );
   if( f.has_value ) r += " stored=" + std::string( e.neg ? "-" : "" ) + u128str( e.mag );
   return r;
}

static const char* ctx_name( int ctx )
{
   return ctx == 0 ? "direct" : ( ctx == 1 ? "seq< R, eof >" : "seq< R, one< 'x' > >" );
}

static void report( const Family& f, const std::string& s, int ctx, const std::string& sig, const Expect& e, const Obs& o, const std::string& extra = std::string() )
{
   std::string d = "\"family\":\"" + vf::jesc( f.name ) + "\",\"context\":\"" + ctx_name( ctx ) + "\",\"input\":\"" + vf::jesc( vf::show( s ) ) + "\"";
   d += ",\"expected_for_rule\":\"" + exp_str( f, e ) + "\",\"observed\":\"" + obs_str( o, f.has_value ) + "\"";
   if( f.pol != P_SYNTAX ) d += ",\"limit\":\"" + u128str( f.maxpos ) + ( f.maxneg ? "/-" + u128str( f.maxneg ) : std::string() ) + "\"";
   if( !extra.empty() ) d += "," + extra;
   vf::violation( sig, d, f.name + ":" + vf::hex( s ) );
}

// runs one context; reports an over-read once and falls back to the slack buffer
static Obs run_ctx( const Family& f, const std::string& s, int ctx, const Expect& e, long sentinel, bool& overread_reported )
{
   Obs o = f.run( s, ctx, false, 0, sentinel );
   if( o.faulted ) {
      const Obs again = f.run( s, ctx, true, 0, sentinel );
      if( !overread_reported ) {
         overread_reported = true;
         if( o.fault_guard ) {
            // consequence when the byte after the end happens to be a digit
            const Obs dig = f.run( s, ctx, true, '7', sentinel );
            std::string extra = "\"with_NUL_after_end\":\"" + obs_str( again, f.has_value ) + "\",\"with_digit_7_after_end\":\"" + obs_str( dig, f.has_value ) + " of " + std::to_string( s.size() ) + " input bytes\"";
            report( f, s, ctx, "C03|" + f.rule + " reads beyond the end of the input", e, o, extra );
         }
         else
            report( f, s, ctx, "C15|" + f.rule + " crashes", e, o );
      }
      o = again;
   }
   return o;
}

enum
{
   BAD_CURSOR = 1,
   BAD_OTHER = 2
};

static int judge( const Family& f, const std::string& s, int ctx, const Expect& e, const Obs& o )
{
   const std::string R = "C15|" + f.rule;
   if( o.faulted ) return BAD_OTHER;  // faulted even with slack: already reported
   if( o.threw_other ) {
      report( f, s, ctx, R + " throws an exception that is not parse_error", e, o );
      return BAD_OTHER;
   }
   // what the context as a whole has to do
   enum
   {
      X_FALSE,
      X_TRUE,
      X_THROW,
      X_THROW_OR_FALSE
   } x = X_FALSE;
   long xlen = 0;
   if( e.kind == E_REJECT )
      x = X_FALSE;
   else if( e.kind == E_OVERFLOW )
      x = f.pol == P_THROW ? X_THROW : ( f.pol == P_FAIL ? X_FALSE : X_THROW_OR_FALSE );
   else if( ctx == 0 ) {
      x = X_TRUE;
      xlen = long( e.len );
   }
   else if( ctx == 1 ) {
      x = e.len == s.size() ? X_TRUE : X_FALSE;
      xlen = long( e.len );
   }
   else {
      x = ( e.len < s.size() && s[ e.len ] == 'x' ) ? X_TRUE : X_FALSE;
      xlen = long( e.len ) + 1;
   }
   const bool okkind = ( x == X_FALSE && !o.threw && !o.result ) || ( x == X_TRUE && !o.threw && o.result ) || ( x == X_THROW && o.threw ) || ( x == X_THROW_OR_FALSE && ( o.threw || !o.result ) );
   if( !okkind ) {
      if( ctx != 0 ) {
         report( f, s, ctx, R + " wrong outcome inside seq", e, o );
         return BAD_OTHER;
      }
      std::string sig;
      if( e.kind == E_REJECT )
         // "accept exactly the documented numeral syntax (optional sign where allowed, no superfluous leading zeros)"
         sig = o.threw ? " throws parse_error on a string outside the documented numeral syntax" : " accepts a string outside the documented numeral syntax";
      else if( e.kind == E_ACCEPT )
         sig = o.threw ? " reports overflow for a representable value" : " rejects a documented numeral whose value fits";
      else if( o.result )
         // "they never store a wrapped or truncated value"
         sig = f.has_value ? " stores a value instead of reporting overflow" : " accepts a numeral above its maximum";
      else if( o.threw )
         sig = " throws on overflow instead of failing locally";
      else
         sig = " reports overflow by local failure instead of parse_error";
      report( f, s, ctx, R + sig, e, o );
      return BAD_OTHER;
   }
   int bad = 0;
   if( o.result ) {
      if( o.consumed != xlen || o.byte != xlen ) {
         report( f, s, ctx, R + ( ctx ? " wrong outcome inside seq" : " consumes a wrong number of bytes on success" ), e, o );
         bad |= BAD_OTHER;
      }
      // "store the mathematically exact value in the target type"
      if( f.has_value && ( o.mag != e.mag || o.neg != e.neg ) ) {
         const char* which = f.maxneg ? ( e.neg ? " for a negative numeral" : " for a non-negative numeral" ) : "";
         report( f, s, ctx, R + " stores an inexact value" + which + ( ctx ? " inside seq" : "" ), e, o );
         bad |= BAD_OTHER;
      }
   }
   else if( !o.threw ) {
      // C02: "reports local failure [with rewinding required] -> the input cursor (pointer, byte, line and column)
      // is exactly where it was when the attempt started"
      if( o.consumed != 0 || o.byte != 0 || o.line != 1 || o.col != 1 ) {
         report( f, s, ctx, "C02|" + f.rule + " leaves input consumed on local failure" + ( ctx ? " inside seq" : "" ), e, o );
         bad |= BAD_CURSOR;
      }
   }
   return bad;
}

static std::map< std::string, int > g_sampled;

static bool eval_case( const Family& f, const std::string& s, bool allow_seq = true )
{
   ++vf::st.evaluations;
   vf::term_site = f.name;
   vf::term_case = f.name + ":" + vf::hex( s );
   const Expect e = orc_expect( f, s );
   const long sentinel = ( e.kind == E_ACCEPT && e.mag == 123 ) ? 77 : 123;  // detects "reported success but stored nothing"
   bool overread = false;
   const Obs o = run_ctx( f, s, 0, e, sentinel, overread );
   int bad = judge( f, s, 0, e, o );
   // sequence contexts: only meaningful (and only reported) when the rule on its own behaved, otherwise the
   // same root cause would be reported twice
   if( f.seqctx && allow_seq && !( bad & BAD_OTHER ) ) {
      for( int ctx = 1; ctx <= 2; ++ctx ) {
         const Obs oc = run_ctx( f, s, ctx, e, sentinel, overread );
         bad |= judge( f, s, ctx, e, oc );
      }
   }
   vf::count( e.kind == E_REJECT ? "cases_expect_reject" : ( e.kind == E_ACCEPT ? "cases_expect_accept" : "cases_expect_overflow" ) );
   bool nt = false;
   if( e.kind == E_OVERFLOW )
      nt = true;
   else if( e.kind == E_ACCEPT && f.pol != P_SYNTAX ) {
      const u128 lim = e.neg ? f.maxneg : f.maxpos;
      nt = e.mag + 2 >= lim;
      if( nt ) vf::count( "cases_within_2_of_limit" );
   }
   else if( e.kind == E_REJECT ) {
      for( char c : s )
         if( odigit( c ) ) nt = true;  // rejected although it contains digits: leading zero / sign / junk prefix
      if( nt ) vf::count( "cases_reject_with_digits" );
   }
   if( nt && vf::st.distinct.size() < 2000000 ) vf::nontrivial( vf::mix( vf::hstr( f.name ), vf::hstr( s ) ) );
   if( nt && ( e.kind != E_REJECT || bad ) && vf::st.samples.size() < 6 && g_sampled[ f.rule ] == 0 && ( vf::st.evaluations % 13 ) == 0 ) {
      g_sampled[ f.rule ] = 1;
      vf::sample( "{\"family\":\"" + vf::jesc( f.name ) + "\",\"input\":\"" + vf::jesc( vf::show( s ) ) + "\",\"oracle\":\"" + exp_str( f, e ) + "\",\"library\":\"" + obs_str( o, f.has_value ) + "\"}" );
   }
   return bad == 0 && !overread;
}

// =====================================================================================================
// DOMAIN
// =====================================================================================================

static void neighbourhood( long D, std::vector< std::string >& out )
{
   std::set< u128 > vals;
   const int shifts[] = { 7, 8, 15, 16, 31, 32, 63, 64 };
   for( int sh : shifts ) {
      const u128 lim = u128( 1 ) << sh;
      for( long d = -D; d <= D; ++d ) vals.insert( lim + d );
   }
   u128 p10 = 1;
   for( int k = 0; k <= 21; ++k ) {
      if( p10 > 0 ) vals.insert( p10 - 1 );
      vals.insert( p10 );
      vals.insert( p10 + 1 );
      p10 *= 10;
   }
   for( u128 m : g_max_values )
      for( long d = -2; d <= 2; ++d )
         if( d >= 0 || m >= u128( -d ) ) vals.insert( m + d );
   std::set< std::string > strs;
   for( u128 v : vals ) {
      const std::string b = u128str( v );
      strs.insert( b );
      for( char d = '0'; d <= '9'; ++d ) {
         strs.insert( b + d );
         strs.insert( std::string( 1, d ) + b );
         std::string r = b;
         r[ r.size() - 1 ] = d;
         strs.insert( r );
      }
   }
   out.assign( strs.begin(), strs.end() );
}

static const Family* find_family( const std::string& name )
{
   for( const auto& f : g_fams )
      if( f.name == name ) return &f;
   return nullptr;
}

int main( int argc, char** argv )
{
   vf::parse_args( argc, argv );
   vf::guard_terminate( "C15" );
   setup_guard();
   register_all();

   if( vf::args.replay ) {
      const size_t c = vf::args.the_case.rfind( ':' );
      const Family* f = c == std::string::npos ? nullptr : find_family( vf::args.the_case.substr( 0, c ) );
      if( !f ) {
         printf( "bad case string, expected <family>:<hex>; families:\n" );
         for( const auto& g : g_fams ) printf( "  %s\n", g.name.c_str() );
         return 0;
      }
      const std::string s = vf::unhex( vf::args.the_case.substr( c + 1 ) );
      const Expect e = orc_expect( *f, s );
      const bool good = eval_case( *f, s );
      printf( "replay %s input=\"%s\" oracle: %s -> %s\n", f->name.c_str(), vf::show( s ).c_str(), exp_str( *f, e ).c_str(), good ? "agrees with oracle" : "VIOLATION" );
      vf::st.states = vf::st.transitions = vf::st.evaluations;
      vf::finish();
      return 0;
   }

   const bool th = vf::args.thorough();
   const long D = th ? 100 : 2;
   std::vector< std::string > neigh;
   neighbourhood( D, neigh );

   const std::vector< std::string > rich_pre = { "", "+", "-", "--", "+-", " " };
   const std::vector< std::string > rich_tr = { "", "x", "/", ":", "+", "-", std::string( 1, '\0' ), "\xb0" };
   const std::vector< std::string > basic_pre = { "", "+", "-" };
   const std::vector< std::string > basic_tr = { "", "x" };
   const std::vector< std::string > neigh_tr = { "", "x" };

   vf::st.note = std::string( "exhaustive per family (" ) + std::to_string( g_fams.size() ) + " families = every integer.hpp rule/action x u8..u64/i8..i64 x Max lists): prefix+digits+trailer for ALL digit strings of length 0..L; quick L = 4 (8-bit and wider-than-16-bit limits, Max<1000), 5 (1000<=Max<=65534), 6 (u16/i16 type limits, Max 65535, syntax-only families); thorough: L+1 for the core families (syntax-only, type-limit, Max in {9,100,type max}); core families use 6 prefixes x 8 trailers up to digit length " + ( th ? "5" : "4" ) + ", everything else 3 signs x {end,'x'}; plus boundary neighbourhood list (" + std::to_string( neigh.size() ) + " numerals: 2^{7,8,15,16,31,32,63,64}+-" + std::to_string( D ) + ", 10^k+-1 k<=21, every Max+-2, each with a digit appended/prepended/replaced) x 3 signs x 2 trailers for every family; each case run direct + inside seq<R,eof> and seq<R,one<x>> (" + ( th ? "digit length<=5 and neighbourhood list" : "digit length<=4 and neighbourhood list" ) + ") with rewind_mode::required on a guard-page-terminated exact-size buffer";

   long global = 0;
   long tick = 0;
   bool stop = false;
   const long ns = vf::args.nshards, sh = vf::args.shard;
   std::string s;
   for( const Family& f : g_fams ) {
      if( stop ) break;
      const int L = f.L + ( ( th && f.rich ) ? 1 : 0 );
      const int Lrich = f.rich ? ( th ? 5 : 4 ) : -1;
      char digs[ 16 ];
      for( int len = 0; len <= L && !stop; ++len ) {
         const auto& pre = len <= Lrich ? rich_pre : basic_pre;
         const auto& tr = len <= Lrich ? rich_tr : basic_tr;
         long total = 1;
         for( int k = 0; k < len; ++k ) total *= 10;
         for( long d = 0; d < total && !stop; ++d ) {
            long v = d;
            for( int k = len - 1; k >= 0; --k ) {
               digs[ k ] = char( '0' + v % 10 );
               v /= 10;
            }
            for( const auto& p : pre )
               for( const auto& t : tr ) {
                  if( global++ % ns != sh ) continue;
                  s.assign( p );
                  s.append( digs, size_t( len ) );
                  s.append( t );
                  eval_case( f, s, len <= ( th ? 5 : 4 ) );
                  vf::count( "cases_exhaustive_digits" );
                  if( ( ++tick & 4095 ) == 0 && vf::out_of_time() ) stop = true;
               }
         }
      }
      for( size_t i = 0; i < neigh.size() && !stop; ++i )
         for( const auto& p : basic_pre )
            for( const auto& t : neigh_tr ) {
               if( global++ % ns != sh ) continue;
               s.assign( p );
               s.append( neigh[ i ] );
               s.append( t );
               eval_case( f, s );
               vf::count( "cases_neighbourhood" );
               if( ( ++tick & 4095 ) == 0 && vf::out_of_time() ) stop = true;
            }
   }
   vf::count( "families", long( g_fams.size() ) );
   vf::count( "parse_runs", g_runs );
   vf::count( "parse_errors_thrown", g_throws );
   vf::st.states = vf::st.transitions = vf::st.evaluations;
   vf::finish();
   return 0;
}
