// C16  "raw_string implements Lua long-bracket literals"
//
//   The raw string rule matches exactly an opening long bracket of some level n, then the shortest
//   following text that ends with the first closing long bracket of the same level n, consuming
//   through that closing bracket; the content presented to the action is the text between the
//   brackets without a single line ending that immediately follows the opening bracket; brackets of
//   other levels inside the content are ignored; without a matching close the rule fails locally
//   without consuming.
//
// Exhaustive comparison of tao::pegtl::raw_string<> against an independent scanner written from the
// Lua reference manual's definition of long brackets (section "Lexical Conventions") and PEGTL's
// documentation of the `eol` rule / Eol input policies (doc/Inputs-and-Parsing.md "Line Ending").
//
// DOMAINS (enumerated completely, never sampled; 16 shards partition every domain by case index)
//
//   configuration   rule                                      input / eol policy      quick      thorough
//   sq              raw_string<'[','=',']'>                   eager, lf_crlf          len 0..10  len 0..12
//   sqc             raw_string<'[','=',']', not_one<'x'>>     eager, lf_crlf          len 0..10  len 0..12
//   ang             raw_string<'<','-','>'>                   eager, lf_crlf          len 0..10  len 0..12
//   eol_lf/cr/crlf/cr_crlf   raw_string<'[','=',']'>          eager, that policy      len 0..8   len 0..10
//   eolc_cr_crlf    raw_string<'[','=',']', not_one<'x'>>     eager, cr_crlf          len 0..8   len 0..10
//   lazy            raw_string<'[','=',']'>                   lazy,  lf_crlf          len 0..8   len 0..10
//   sqn / sqn_lazy  raw_string<'[','=',']', not_one<'\n'>>    eager / lazy, lf_crlf   len 0..8   len 0..10
//   sqr_cr / sqr_cr_crlf  raw_string<'[','=',']', not_one<'\r'>>  eager, cr / cr_crlf  len 0..8   len 0..10
//   sqc_lazy        raw_string<'[','=',']', not_one<'x'>>     lazy,  lf_crlf          len 0..8   len 0..10
//   lvl             raw_string<'[','=',']'>                   eager, lf_crlf          levels 0..40 / 0..300:
//                   {open(n), 3 broken openers} x 14 content templates x 7 tails  (see gen_levels)
//
//   Alphabet for the length-bounded domains: { Open, Marker, Close, '\n', '\r', 'x' } (6 symbols), ALL
//   strings of every length up to the bound.
//
// Every case (configuration, string) is executed three times on an exact-size buffer that ends at a
// PROT_NONE page (so that any read past the end faults and is reported, not missed):
//   A  parse< R, probe_action, normal, apply_mode::action,  rewind_mode::required >   result, cursor, content span
//   B  parse< R, probe_action, normal, apply_mode::action,  rewind_mode::optional >   result, cursor on success, span
//   C  parse< R, nothing,      normal, apply_mode::nothing, rewind_mode::required >   result, cursor
//
// Replay:  u_c16 case '<configuration>:<hex of input bytes>'

#include <setjmp.h>
#include <signal.h>
#include <sys/mman.h>
#include <unistd.h>

#include <tao/pegtl.hpp>
#include <tao/pegtl/contrib/raw_string.hpp>

#include "engine/common.hpp"

namespace pegtl = tao::pegtl;

// =====================================================================================================
// ORACLE  (independent of the library; written from the specification text only)
// =====================================================================================================

enum class EolP
{
   lf_crlf,
   lf,
   cr,
   crlf,
   cr_crlf
};

// PEGTL doc/Inputs-and-Parsing.md, "Line Ending": "The supported line endings are cr, a single
// carriage-return/"\r" ..., lf, a single line-feed/"\n" ..., and crlf, a sequence of both ...
// The default ... eol::lf_crlf ... recognises both Unix and MS-DOS line endings. The supplied
// alternatives are eol::cr, eol::lf, eol::crlf and eol::cr_crlf."
// Returns the length of the line ending that starts at s[p] under the policy, 0 if there is none.
static size_t orc_eol_len( const std::string& s, size_t p, EolP pol )
{
   const bool has1 = p < s.size();
   const bool has2 = p + 1 < s.size();
   const bool lf = has1 && s[ p ] == '\n';
   const bool cr = has1 && s[ p ] == '\r';
   const bool crlf = has2 && s[ p ] == '\r' && s[ p + 1 ] == '\n';
   switch( pol ) {
      case EolP::lf:
         return lf ? 1 : 0;
      case EolP::cr:
         return cr ? 1 : 0;
      case EolP::crlf:
         return crlf ? 2 : 0;
      case EolP::lf_crlf:
         return lf ? 1 : ( crlf ? 2 : 0 );
      case EolP::cr_crlf:
         return crlf ? 2 : ( cr ? 1 : 0 );
   }
   return 0;
}

struct Lit
{
   bool opened = false;  // an opening long bracket is present at offset 0
   size_t level = 0;
   bool ok = false;  // the whole literal is present (and the content satisfies the content rule)
   size_t consumed = 0;  // bytes through the closing long bracket
   size_t cb = 0, ce = 0;  // content span [cb,ce)
};

// Lua manual: "an opening long bracket of level n [is] an opening square bracket followed by n equal
// signs followed by another opening square bracket" -> open(n) = Open Marker^n Open, n >= 0.
static bool orc_open( const std::string& s, char O, char M, size_t& level )
{
   if( s.empty() || s[ 0 ] != O ) return false;
   size_t i = 1;
   while( i < s.size() && s[ i ] == M ) ++i;
   if( i < s.size() && s[ i ] == O ) {
      level = i - 1;
      return true;
   }
   return false;
}

// Lua manual: "A closing long bracket is defined similarly" -> close(n) = Close Marker^n Close.
static bool orc_close_at( const std::string& s, size_t q, char M, char C, size_t level )
{
   if( q + level + 2 > s.size() ) return false;
   if( s[ q ] != C ) return false;
   for( size_t k = 1; k <= level; ++k )
      if( s[ q + k ] != M ) return false;
   return s[ q + level + 1 ] == C;
}

// Lua manual: "A long literal starts with an opening long bracket of any level and ends at the first
// closing long bracket of the same level. It can contain any text except a closing bracket of the
// same level. ... ignore long brackets of any other level. ... when the opening long bracket is
// immediately followed by a newline, the newline is not included in the string."
// Property text: "... the content presented to the action is the text between the brackets without a
// single line ending that immediately follows the opening bracket ...".
// forbid >= 0: the single-byte content rule not_one< forbid > ("rules that the content must match",
// doc/Changelog 2.1.3): every content byte must differ from `forbid`, otherwise no match.
static Lit orc_raw( const std::string& s, char O, char M, char C, EolP pol, int forbid )
{
   Lit l;
   if( !orc_open( s, O, M, l.level ) ) return l;
   l.opened = true;
   size_t p = l.level + 2;
   p += orc_eol_len( s, p, pol );  // at most ONE line ending is dropped
   for( size_t q = p; q < s.size(); ++q ) {
      if( orc_close_at( s, q, M, C, l.level ) ) {  // first closing bracket of the same level
         l.ok = true;
         l.cb = p;
         l.ce = q;
         l.consumed = q + l.level + 2;
         break;
      }
   }
   if( l.ok && forbid >= 0 ) {
      for( size_t k = l.cb; k < l.ce; ++k )
         if( (unsigned char)s[ k ] == (unsigned)forbid ) {
            l.ok = false;
            l.consumed = 0;
         }
   }
   return l;
}

// =====================================================================================================
// LIBRARY SIDE
// =====================================================================================================

using RS_sq = pegtl::raw_string< '[', '=', ']' >;
using RS_sqc = pegtl::raw_string< '[', '=', ']', pegtl::not_one< 'x' > >;
using RS_ang = pegtl::raw_string< '<', '-', '>' >;
// content rules that reject a line ending: a second line ending behind the opening bracket must reach them
using RS_sqn = pegtl::raw_string< '[', '=', ']', pegtl::not_one< '\n' > >;
using RS_sqr = pegtl::raw_string< '[', '=', ']', pegtl::not_one< '\r' > >;

struct Probe
{
   int calls = 0;
   const char* b = nullptr;
   const char* e = nullptr;
};
static Probe g_probe;

struct probe_apply
{
   // raw_string passes its marker_size as an extra leading state, hence the pack.
   template< typename ActionInput, typename... States >
   static void apply( const ActionInput& in, States&&... /*unused*/ )
   {
      ++g_probe.calls;
      g_probe.b = in.begin();
      g_probe.e = in.end();
   }
};

template< typename Rule >
struct probe_action : pegtl::nothing< Rule >
{};
template<>
struct probe_action< RS_sq::content > : probe_apply
{};
template<>
struct probe_action< RS_sqc::content > : probe_apply
{};
template<>
struct probe_action< RS_ang::content > : probe_apply
{};
template<>
struct probe_action< RS_sqn::content > : probe_apply
{};
template<>
struct probe_action< RS_sqr::content > : probe_apply
{};

// ---- guard page buffer: the input occupies the last n bytes before a PROT_NONE page ----------------
static char* g_guard = nullptr;  // first byte of the inaccessible page
static sigjmp_buf g_jmp;
static volatile sig_atomic_t g_armed = 0;
static volatile sig_atomic_t g_fault_in_guard = 0;
static long g_page = 4096;

static void on_segv( int, siginfo_t* si, void* )
{
   if( g_armed ) {
      const char* a = static_cast< const char* >( si->si_addr );
      g_fault_in_guard = ( a >= g_guard && a < g_guard + g_page ) ? 1 : 0;
      g_armed = 0;
      siglongjmp( g_jmp, 1 );
   }
   const char msg[] = "V\tC16|harness fault outside a guarded run\t{}\n";
   (void)!write( 1, msg, sizeof msg - 1 );
   _exit( 0 );
}

static void setup_guard()
{
   g_page = sysconf( _SC_PAGESIZE );
   char* m = static_cast< char* >( mmap( nullptr, 3 * g_page, PROT_READ | PROT_WRITE, MAP_PRIVATE | MAP_ANONYMOUS, -1, 0 ) );
   if( m == MAP_FAILED ) {
      perror( "mmap" );
      exit( 0 );
   }
   g_guard = m + 2 * g_page;
   mprotect( g_guard, g_page, PROT_NONE );
   struct sigaction sa;
   memset( &sa, 0, sizeof sa );
   sa.sa_sigaction = on_segv;
   sa.sa_flags = SA_SIGINFO | SA_NODEFER;
   sigaction( SIGSEGV, &sa, nullptr );
   sigaction( SIGBUS, &sa, nullptr );
}

struct Obs
{
   bool faulted = false, fault_guard = false, threw = false;
   bool result = false;
   long consumed = 0;  // current() - begin
   long byte = 0, line = 1, col = 1;
   int calls = 0;
   long sb = -1, se = -1;  // span seen by the action, relative to the start of the input
};

template< typename RS, typename Input, template< typename... > class Act, pegtl::apply_mode A, pegtl::rewind_mode M >
static Obs run_one( const std::string& s )
{
   const size_t n = s.size();
   char* p = g_guard - n;
   memcpy( p, s.data(), n );
   g_probe = Probe();
   if( sigsetjmp( g_jmp, 0 ) ) {
      Obs f;  // fresh object: locals modified after sigsetjmp are indeterminate after the jump
      f.faulted = true;
      f.fault_guard = g_fault_in_guard;
      return f;
   }
   Obs o;
   g_armed = 1;
   try {
      Input in( p, p + n, "src" );
      o.result = pegtl::parse< RS, Act, pegtl::normal, A, M >( in );
      o.consumed = long( in.current() - p );
      o.byte = long( in.byte() );
      if constexpr( Input::tracking_mode_v == pegtl::tracking_mode::eager ) {
         o.line = long( in.line() );
         o.col = long( in.column() );
      }
   }
   catch( ... ) {
      o.threw = true;
   }
   g_armed = 0;
   o.calls = g_probe.calls;
   if( g_probe.calls > 0 ) {
      o.sb = long( g_probe.b - p );
      o.se = long( g_probe.e - p );
   }
   return o;
}

// =====================================================================================================
// JUDGE
// =====================================================================================================

struct Cfg
{
   const char* name;
   char O, M, C;
   EolP pol;
   int forbid;
   const char* sigsuffix;  // appended to C16 signatures to keep configurations with a different call path apart
   int len_quick, len_thorough;  // 0: not a length-bounded configuration
   Obs ( *runA )( const std::string& );
   Obs ( *runB )( const std::string& );
   Obs ( *runC )( const std::string& );
};

static long g_runs = 0;

static std::string num( long v )
{
   return std::to_string( v );
}

static void report( const Cfg& c, const std::string& s, const std::string& sig, const char* mode, const Lit& l, const Obs& o )
{
   std::string d;
   d += "\"config\":\"" + std::string( c.name ) + "\",\"mode\":\"" + mode + "\",\"input\":\"" + vf::jesc( vf::show( s ) ) + "\"";
   d += ",\"expected\":\"" + std::string( l.ok ? "match" : "local failure" ) + " consumed=" + num( l.ok ? long( l.consumed ) : 0 ) + ( l.ok ? " content=[" + num( l.cb ) + "," + num( l.ce ) + ")" : std::string() ) + "\"";
   d += ",\"observed\":\"" + std::string( o.faulted ? "fault" : ( o.threw ? "exception" : ( o.result ? "match" : "local failure" ) ) ) + " consumed=" + num( o.consumed ) + " byte=" + num( o.byte ) + " line=" + num( o.line ) + " column=" + num( o.col ) + " action_calls=" + num( o.calls ) + ( o.calls ? " content=[" + num( o.sb ) + "," + num( o.se ) + ")" : std::string() ) + "\"";
   vf::violation( sig, d, std::string( c.name ) + ":" + vf::hex( s ) );
}

// returns a bit mask: 0 when the run agreed with the oracle, BAD_CURSOR when only the cursor after a local
// failure is wrong, BAD_OTHER for everything else
enum
{
   BAD_CURSOR = 1,
   BAD_OTHER = 2
};

static int judge( const Cfg& c, const std::string& s, const Lit& l, const Obs& o, const char* mode, bool required, bool with_action, bool cursor_already_reported )
{
   const std::string sfx = std::string( c.sigsuffix ) + ( required ? "" : " under rewind_mode::optional" );
   ++g_runs;
   if( o.faulted ) {
      report( c, s, o.fault_guard ? "C03|raw_string reads beyond the end of the input" : "C16|raw_string crashes", mode, l, o );
      return BAD_OTHER;
   }
   if( o.threw ) {
      report( c, s, "C16|raw_string throws" + sfx, mode, l, o );
      return BAD_OTHER;
   }
   if( o.result && !l.ok ) {
      // "matches exactly an opening long bracket of some level n, then the shortest following text that ends
      //  with the first closing long bracket of the same level n"
      report( c, s, "C16|raw_string accepts input that is not a long-bracket literal" + sfx, mode, l, o );
      return BAD_OTHER;
   }
   if( !o.result && l.ok ) {
      report( c, s, "C16|raw_string rejects a well-formed long-bracket literal" + sfx, mode, l, o );
      return BAD_OTHER;
   }
   int bad = 0;
   if( o.result ) {
      // "consuming through that closing bracket"
      if( o.consumed != long( l.consumed ) || o.byte != long( l.consumed ) ) {
         report( c, s, "C16|raw_string consumed length wrong on success" + sfx, mode, l, o );
         bad |= BAD_OTHER;
      }
      if( with_action ) {
         if( o.calls != 1 ) {
            report( c, s, "C16|raw_string content action call count wrong" + sfx, mode, l, o );
            bad |= BAD_OTHER;
         }
         // "the content presented to the action is the text between the brackets without a single line
         //  ending that immediately follows the opening bracket"
         else if( o.sb != long( l.cb ) || o.se != long( l.ce ) ) {
            report( c, s, "C16|raw_string content span wrong" + sfx, mode, l, o );
            bad |= BAD_OTHER;
         }
      }
   }
   else {
      if( with_action && o.calls != 0 ) {
         report( c, s, "C16|raw_string content action called although the rule fails" + sfx, mode, l, o );
         bad |= BAD_OTHER;
      }
      // "without a matching close the rule fails locally without consuming" / C02: cursor (pointer, byte,
      // line, column) exactly where it was when the attempt started with rewinding required.
      if( required && ( o.consumed != 0 || o.byte != 0 || o.line != 1 || o.col != 1 ) ) {
         if( !cursor_already_reported ) report( c, s, "C02|raw_string leaves input consumed on local failure", mode, l, o );
         bad |= BAD_CURSOR;
      }
   }
   return bad;
}

static std::map< std::string, int > g_samples_per_cfg;

static bool eval_case( const Cfg& c, const std::string& s )
{
   const Lit l = orc_raw( s, c.O, c.M, c.C, c.pol, c.forbid );
   ++vf::st.evaluations;
   // mode A: action on ::content, rewinding required
   int bad = judge( c, s, l, c.runA( s ), "action,required", true, true, false );
   // The other two modes share the code path; results that are already wrong in mode A are not reported a
   // second time (one root cause, one signature). A wrong cursor alone does not stop the other modes.
   if( !( bad & BAD_OTHER ) ) bad |= judge( c, s, l, c.runC( s ), "nothing,required", true, false, ( bad & BAD_CURSOR ) != 0 );
   if( !( bad & BAD_OTHER ) ) bad |= judge( c, s, l, c.runB( s ), "action,optional", false, true, false );
   const bool good = bad == 0;
   if( l.opened ) {
      vf::count( l.ok ? "opened_and_closed" : "opened_not_closed" );
      if( vf::st.distinct.size() < 2000000 ) vf::nontrivial( vf::mix( vf::hstr( c.name ), vf::hstr( s ) ) );
      if( l.ok && l.cb > l.level + 2 ) vf::count( "leading_line_ending_dropped" );
      if( l.ok && l.level > 0 ) vf::count( "matched_level_ge_1" );
      if( l.ok && l.ce - l.cb >= 2 && vf::st.samples.size() < 6 && ( vf::st.evaluations % 7 ) == 0 && g_samples_per_cfg[ c.name ] < 1 ) {
         ++g_samples_per_cfg[ c.name ];
         vf::sample( "{\"config\":\"" + std::string( c.name ) + "\",\"input\":\"" + vf::jesc( vf::show( s ) ) + "\",\"level\":" + num( l.level ) + ",\"consumed\":" + num( l.consumed ) + ",\"content\":\"" + vf::jesc( vf::show( s.substr( l.cb, l.ce - l.cb ) ) ) + "\",\"library_agrees\":" + ( good ? "true" : "false" ) + "}" );
      }
   }
   else
      vf::count( "no_opening_bracket" );
   return good;
}

template< typename RS, typename Input >
static Cfg make_cfg( const char* name, char O, char M, char C, EolP pol, int forbid, const char* sfx, int lq, int lt )
{
   Cfg c;
   c.name = name;
   c.O = O;
   c.M = M;
   c.C = C;
   c.pol = pol;
   c.forbid = forbid;
   c.sigsuffix = sfx;
   c.len_quick = lq;
   c.len_thorough = lt;
   c.runA = &run_one< RS, Input, probe_action, pegtl::apply_mode::action, pegtl::rewind_mode::required >;
   c.runB = &run_one< RS, Input, probe_action, pegtl::apply_mode::action, pegtl::rewind_mode::optional >;
   c.runC = &run_one< RS, Input, pegtl::nothing, pegtl::apply_mode::nothing, pegtl::rewind_mode::required >;
   return c;
}

template< typename Eol >
using EIn = pegtl::memory_input< pegtl::tracking_mode::eager, Eol >;
using LIn = pegtl::memory_input< pegtl::tracking_mode::lazy, pegtl::eol::lf_crlf >;

static std::vector< Cfg > configs()
{
   using namespace pegtl;
   std::vector< Cfg > v;
   v.push_back( make_cfg< RS_sq, EIn< eol::lf_crlf > >( "sq", '[', '=', ']', EolP::lf_crlf, -1, "", 10, 12 ) );
   v.push_back( make_cfg< RS_sqc, EIn< eol::lf_crlf > >( "sqc", '[', '=', ']', EolP::lf_crlf, 'x', " [with Contents]", 10, 12 ) );
   v.push_back( make_cfg< RS_ang, EIn< eol::lf_crlf > >( "ang", '<', '-', '>', EolP::lf_crlf, -1, "", 10, 12 ) );
   v.push_back( make_cfg< RS_sq, EIn< eol::lf > >( "eol_lf", '[', '=', ']', EolP::lf, -1, " [non-default eol]", 8, 10 ) );
   v.push_back( make_cfg< RS_sq, EIn< eol::cr > >( "eol_cr", '[', '=', ']', EolP::cr, -1, " [non-default eol]", 8, 10 ) );
   v.push_back( make_cfg< RS_sq, EIn< eol::crlf > >( "eol_crlf", '[', '=', ']', EolP::crlf, -1, " [non-default eol]", 8, 10 ) );
   v.push_back( make_cfg< RS_sq, EIn< eol::cr_crlf > >( "eol_cr_crlf", '[', '=', ']', EolP::cr_crlf, -1, " [non-default eol]", 8, 10 ) );
   v.push_back( make_cfg< RS_sqc, EIn< eol::cr_crlf > >( "eolc_cr_crlf", '[', '=', ']', EolP::cr_crlf, 'x', " [non-default eol]", 8, 10 ) );
   v.push_back( make_cfg< RS_sq, LIn >( "lazy", '[', '=', ']', EolP::lf_crlf, -1, "", 8, 10 ) );
   v.push_back( make_cfg< RS_sqn, EIn< eol::lf_crlf > >( "sqn", '[', '=', ']', EolP::lf_crlf, '\n', " [with Contents]", 8, 10 ) );
   v.push_back( make_cfg< RS_sqr, EIn< eol::cr > >( "sqr_cr", '[', '=', ']', EolP::cr, '\r', " [with Contents]", 8, 10 ) );
   v.push_back( make_cfg< RS_sqr, EIn< eol::cr_crlf > >( "sqr_cr_crlf", '[', '=', ']', EolP::cr_crlf, '\r', " [with Contents]", 8, 10 ) );
   v.push_back( make_cfg< RS_sqn, LIn >( "sqn_lazy", '[', '=', ']', EolP::lf_crlf, '\n', " [with Contents]", 8, 10 ) );
   v.push_back( make_cfg< RS_sqc, LIn >( "sqc_lazy", '[', '=', ']', EolP::lf_crlf, 'x', " [with Contents]", 8, 10 ) );
   v.push_back( make_cfg< RS_sq, EIn< eol::lf_crlf > >( "lvl", '[', '=', ']', EolP::lf_crlf, -1, "", 0, 0 ) );
   return v;
}

// ---- the "all levels" family -------------------------------------------------------------------------
static std::string open_n( long n )
{
   return n < 0 ? std::string() : "[" + std::string( size_t( n ), '=' ) + "[";
}
static std::string close_n( long n )
{
   return n < 0 ? std::string() : "]" + std::string( size_t( n ), '=' ) + "]";
}

static void gen_levels( long maxlevel, std::vector< std::string >& out )
{
   for( long n = 0; n <= maxlevel; ++n ) {
      const std::string eq( size_t( n ), '=' );
      const std::string contents[] = {
         "", "x", "\n", "\nx", "\r\n", "\n\n", "\r", close_n( n - 1 ), close_n( n + 1 ), open_n( n ), "]" + eq, "]" + eq + "x", eq + "]", close_n( n + 1 ) + "x" + close_n( n > 0 ? n - 1 : 1 )
      };
      const std::string cl = close_n( n );
      const std::string tails[] = { cl, close_n( n + 1 ), close_n( n - 1 ), "", cl + "x", cl.substr( 0, cl.size() - 1 ), cl + cl };
      for( const auto& c : contents )
         for( const auto& t : tails ) out.push_back( open_n( n ) + c + t );
      const std::string broken[] = { "[" + eq, "[" + eq + "x[", "x" + open_n( n ), "[" + eq + "]" };
      for( const auto& b : broken ) {
         out.push_back( b + cl );
         out.push_back( b + "x" + cl );
      }
   }
}

static const Cfg* find_cfg( const std::vector< Cfg >& v, const std::string& name )
{
   for( const auto& c : v )
      if( name == c.name ) return &c;
   return nullptr;
}

int main( int argc, char** argv )
{
   vf::parse_args( argc, argv );
   setup_guard();
   const std::vector< Cfg > cfgs = configs();

   if( vf::args.replay ) {
      const auto parts = vf::split( vf::args.the_case, ':' );
      const Cfg* c = parts.size() == 2 ? find_cfg( cfgs, parts[ 0 ] ) : nullptr;
      if( !c ) {
         printf( "bad case string, expected <config>:<hex>\n" );
         return 0;
      }
      const std::string s = vf::unhex( parts[ 1 ] );
      const bool good = eval_case( *c, s );
      printf( "replay %s input=\"%s\" -> %s\n", c->name, vf::show( s ).c_str(), good ? "agrees with oracle" : "VIOLATION" );
      vf::st.states = vf::st.transitions = vf::st.evaluations;
      vf::finish();
      return 0;
   }

   const bool th = vf::args.thorough();
   const long maxlevel = th ? 300 : 40;
   vf::st.note = std::string( "exhaustive: all strings over {Open,Marker,Close,LF,CR,x}; raw_string<[=]> , raw_string<[=],not_one<x>> and raw_string<'<','-','>'> at length 0.." ) + ( th ? "12" : "10" ) + "; eol policies lf, cr, crlf, cr_crlf (+ cr_crlf with Contents) and lazy tracking at length 0.." + ( th ? "10" : "8" ) + "; level family levels 0.." + num( maxlevel ) + " (4 openers x 14 contents x 7 tails); each case run as action+required, nothing+required, action+optional on a guard-page-terminated exact-size buffer";

   long global = 0;  // running case index over all configurations: case g belongs to shard g % nshards
   bool stop = false;
   for( const Cfg& c : cfgs ) {
      if( stop ) break;
      const char alpha[ 6 ] = { c.O, c.M, c.C, '\n', '\r', 'x' };
      if( c.len_quick == 0 ) {
         std::vector< std::string > v;
         gen_levels( maxlevel, v );
         for( size_t i = 0; i < v.size() && !stop; ++i, ++global ) {
            if( global % vf::args.nshards != vf::args.shard ) continue;
            eval_case( c, v[ i ] );
            vf::count( "cases_level_family" );
            if( ( i & 1023 ) == 0 && vf::out_of_time() ) stop = true;
         }
         continue;
      }
      const int L = th ? c.len_thorough : c.len_quick;
      std::string s;
      for( int len = 0; len <= L && !stop; ++len ) {
         long total = 1;
         for( int k = 0; k < len; ++k ) total *= 6;
         s.assign( size_t( len ), ' ' );
         long first = ( vf::args.shard - global % vf::args.nshards + vf::args.nshards ) % vf::args.nshards;
         long done = 0;
         for( long i = first; i < total; i += vf::args.nshards ) {
            long v = i;
            for( int k = len - 1; k >= 0; --k ) {
               s[ size_t( k ) ] = alpha[ v % 6 ];
               v /= 6;
            }
            eval_case( c, s );
            if( ( ++done & 8191 ) == 0 && vf::out_of_time() ) {
               stop = true;
               break;
            }
         }
         global += total;
      }
   }
   vf::count( "parse_runs", g_runs );
   vf::st.states = vf::st.transitions = vf::st.evaluations;
   vf::finish();
   return 0;
}
