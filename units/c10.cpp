// C10 - "Character-class and encoding rules accept exactly the documented sets."
//
// Every single-unit rule of PEGTL (ASCII classes, abnf.hpp core rules, UTF-8 / UTF-16 / UTF-32 rules, binary
// uint8/16/32/64 rules incl. the mask_ variants, plus the string / istring style rules built from them) is run
// through tao::pegtl::parse<Rule>() on EXHAUSTIVELY ENUMERATED inputs and compared with an oracle that is written
// from the specification texts only:
//     doc/Rule-Reference.md (sections "ASCII Rules", "Unicode Rules", "Binary Rules"), RFC 5234 appendix B.1,
//     RFC 3629 section 4 (UTF-8 byte sequence syntax), RFC 2781 section 2.2 (UTF-16 decoding),
//     Unicode D76/D90 (UTF-32 = scalar values only).
// Expected for every (rule, input):  match  <=>  the input starts with a complete well-formed unit whose
// (endian adjusted, optionally masked) value is in the documented set;  on match exactly the N bytes of that unit
// are consumed;  otherwise parse() is false and nothing is consumed.
//
// Inputs are exact-size: they are placed so that their last byte is the last byte of a readable page which is
// followed by a PROT_NONE page - one byte read beyond the given size faults and is reported as a violation.
//
// Out of scope (documented limitation, Rule-Reference.md "Unicode Rules"): line / column counting of the
// UTF-16, UTF-32 and binary rules ("The line and column numbers are not counted correctly").
//
// DOMAINS (nothing is sampled; every tier enumerates the whole of the sets below, split over the shards)
//  both tiers
//   A  ascii + abnf : empty input, all 256 one-byte inputs, all 65536 two-byte inputs  x  every class rule and
//                     every one/not_one/range/not_range/ranges parameterisation registered in reg_ascii()
//      string rules : ascii string/two/three/ellipsis, istring (6 two-char istrings x all 65536 two-byte inputs; long
//                     istring/string: every byte value at every position, every truncation, trailing bytes)
//   B  utf8         : ALL byte sequences of length 0,1,2,3 x full battery (22 rules);
//                     4- and 5-byte inputs with every lead byte x continuation bytes from the boundary set
//                     {00,7F,80,8F,90,9F,A0,BF,C0,FF} (x trailing byte for length 5) x full battery
//   C  utf16_be/le  : ALL inputs of length 0,1,2; length 3: every first unit x third byte from a boundary set;
//                     length 4: every first unit x second unit from {0000,D7FF,D800,DBFF,DC00,DFFF,E000,FFFF};
//                     length 6: boundary^3 units; x full battery
//   D  utf32_be/le  : all byte strings of length 0..5 over {00,01,10,11,7F,80,D7,D8,DF,E0,FF}; every value
//                     0..0x1100FF and 0xFFFFFF00..0xFFFFFFFF as a 4-byte input; x full battery
//   E  uint8        : all 256 values (length 1, and length 2 with trailing 00/FF), empty input
//      uint16_be/le : all 65536 values (+ trailing byte 00/FF), all truncations
//      uint32_be/le : all values with every byte from {00,01,7F,80,FE,FF} (1296), all truncations; N+1 byte inputs
//                     (value bytes from {00,7F,80,FF}, trailing byte 00/FF)
//      uint64_be/le : all values with every byte from {00,01,7F,80,FE,FF} (1679616), all truncations; N+1 byte
//                     inputs as above
//                     each x (13 unmasked rules + 7 masks x 7 masked rules); uintN string / mask_string rules with
//                     every byte value at every position and every truncation
//  quick tier adds
//   B  utf8 4-byte  : ALL 2^32 four-byte inputs x utf8::any;  lead byte F0..FF x ALL 2^24 continuations and
//                     lead 00..EF x all (b1,b2) x b3 from the boundary set  x core battery (any, one, not_one, range,
//                     not_range, ranges)
//   C  utf16 4-byte : every surrogate first unit (D800..DFFF) x ALL second units x core battery
//  thorough tier adds instead
//   B  utf8         : ALL 2^32 four-byte inputs x core battery
//   C  utf16_be/le  : ALL 2^32 unit pairs x core battery; ALL 2^24 three-byte inputs
//   D  utf32_be/le  : ALL 2^32 values x core battery
//   E  uint32_be/le : ALL 2^32 values x core battery (any one not_one range not_range ranges mask_one mask_range)
//
// replay:  u_c10 case '<hex of input bytes>:<rule name>'

#include <signal.h>
#include <sys/mman.h>
#include <unistd.h>

#include <algorithm>
#include <bitset>
#include <deque>
#include <exception>
#include <type_traits>

#include <tao/pegtl.hpp>
#include <tao/pegtl/contrib/abnf.hpp>
#include <tao/pegtl/contrib/uint16.hpp>
#include <tao/pegtl/contrib/uint32.hpp>
#include <tao/pegtl/contrib/uint64.hpp>
#include <tao/pegtl/contrib/uint8.hpp>
#include <tao/pegtl/contrib/utf16.hpp>
#include <tao/pegtl/contrib/utf32.hpp>

#include "engine/common.hpp"

namespace pegtl = tao::pegtl;
using u8 = unsigned char;

// =====================================================================================================
//  exact-size input buffer: [ ... input bytes ][ PROT_NONE page ]
// =====================================================================================================

static u8* g_guard = nullptr;  // first byte of the inaccessible page
static long g_page = 4096;

static inline u8* slot( const size_t n )
{
   return g_guard - n;
}

struct Entry;
static const Entry* volatile g_cur_rule = nullptr;  // what the library is working on (for the fault handler)
static volatile size_t g_cur_n = 0;

static void on_fault( int, siginfo_t*, void* );
static void on_abort( int );
static void on_terminate();

static void guard_init()
{
   g_page = sysconf( _SC_PAGESIZE );
   void* m = mmap( nullptr, size_t( 2 * g_page ), PROT_READ | PROT_WRITE, MAP_PRIVATE | MAP_ANONYMOUS, -1, 0 );
   if( m == MAP_FAILED || mprotect( static_cast< char* >( m ) + g_page, size_t( g_page ), PROT_NONE ) != 0 ) {
      fprintf( stderr, "c10: cannot set up guard page\n" );
      exit( 2 );
   }
   g_guard = static_cast< u8* >( m ) + g_page;
   struct sigaction sa;
   memset( &sa, 0, sizeof sa );
   sa.sa_sigaction = on_fault;
   sa.sa_flags = SA_SIGINFO;
   sigaction( SIGSEGV, &sa, nullptr );
   sigaction( SIGBUS, &sa, nullptr );
   signal( SIGABRT, on_abort );
   std::set_terminate( on_terminate );
}

// =====================================================================================================
//  rule registry
// =====================================================================================================

enum EncKind
{
   ENC_BYTE,   // ascii / abnf: one byte is one unit
   ENC_UTF8,
   ENC_UTF16,
   ENC_UTF32,
   ENC_UINT    // binary rules, width bytes
};

struct Fam
{
   const char* name;
   EncKind enc;
   unsigned width;  // bytes of one code unit / value
   bool be;
   int idx;         // index into the per-family counters
};

enum Kind
{
   K_ANY,
   K_ONE,        // params = accepted values
   K_NOT_ONE,    // params = refused values
   K_RANGE,      // params = { lo, hi }
   K_NOT_RANGE,
   K_RANGES,     // params = { lo1, hi1, lo2, hi2, ... [, single] }
   K_SET,        // explicit documented byte set (character classes)
   K_STRING,     // params = sequence of unit values
   K_ISTRING     // params = sequence of bytes, ASCII letters compared case-insensitively
};

struct Res
{
   bool ok;
   size_t consumed;
};

// The way a user runs a rule: a memory_input over exactly [p, p+n) and tao::pegtl::parse.
// The top-level rewind_mode is set to `required`: Inputs-and-Parsing.md: "The rewind_mode, which can also be set to
// required when rewinding the input to its start is required for top-level parse failures", and
// Rules-and-Grammars.md: "If a call to match() returns with false, then the rule must not have consumed input (for
// complex rules: only when the rewind_mode is required)".  With the default (optional) the seq<>-based string<>
// rules of the utf/uint namespaces legitimately leave a matched prefix consumed; that is not a C10 matter.
template< typename Rule >
static Res run_rule( const char* p, const size_t n )
{
   pegtl::memory_input<> in( p, p + n, "src" );
   const bool ok = pegtl::parse< Rule, pegtl::nothing, pegtl::normal, pegtl::apply_mode::action, pegtl::rewind_mode::required >( in );
   return { ok, size_t( in.current() - p ) };
}

struct Entry
{
   int id = 0;
   const Fam* fam = nullptr;
   std::string kindname;  // stable part of the signature, e.g. "mask_range" or "alnum"
   std::string name;      // unique, e.g. "utf8::range<0x80,0x7FF>"
   Kind kind = K_ANY;
   bool masked = false;
   uint64_t mask = 0;
   std::vector< uint64_t > params;
   std::bitset< 256 > set;
   bool core = false;  // member of the reduced battery used on the 2^32 domains
   Res ( *run )( const char*, size_t ) = nullptr;
};

static std::deque< Entry > g_rules;
static std::map< std::string, Entry* > g_by_name;
static std::map< std::string, std::vector< const Entry* > > g_unit_rules;    // family -> single unit rules
static std::map< std::string, std::vector< const Entry* > > g_core_rules;    // family -> reduced battery
static std::map< std::string, std::vector< const Entry* > > g_string_rules;  // family -> string style rules
static int g_nfam = 0;

template< typename Rule >
static Entry& add( const Fam& f, const std::string& kindname, const std::string& text, const Kind k, std::vector< uint64_t > params, const bool masked = false, const uint64_t mask = 0 )
{
   g_rules.emplace_back();
   Entry& e = g_rules.back();
   e.id = int( g_rules.size() );
   e.fam = &f;
   e.kindname = kindname;
   e.name = std::string( f.name ) + "::" + text;
   e.kind = k;
   e.masked = masked;
   e.mask = mask;
   e.params = std::move( params );
   e.run = &run_rule< Rule >;
   if( g_by_name.count( e.name ) ) {
      fprintf( stderr, "c10: duplicate rule name %s\n", e.name.c_str() );
      exit( 2 );
   }
   g_by_name[ e.name ] = &e;
   if( k == K_STRING || k == K_ISTRING )
      g_string_rules[ f.name ].push_back( &e );
   else
      g_unit_rules[ f.name ].push_back( &e );
   return e;
}

static Entry& core( Entry& e )
{
   e.core = true;
   g_core_rules[ e.fam->name ].push_back( &e );
   return e;
}

// parameter pack -> unsigned values (a char parameter such as '\xe9' denotes the byte 0xE9)
template< typename T, typename... A >
static std::vector< uint64_t > PV( A... a )
{
   return std::vector< uint64_t >{ uint64_t( std::make_unsigned_t< T >( T( a ) ) )... };
}

static std::string hx( const uint64_t v )
{
   char b[ 32 ];
   snprintf( b, sizeof b, "0x%llX", static_cast< unsigned long long >( v ) );
   return b;
}

static std::string hxlist( const std::vector< uint64_t >& v )
{
   std::string s;
   for( size_t i = 0; i < v.size(); ++i ) s += ( i ? "," : "" ) + hx( v[ i ] );
   return s;
}

// =====================================================================================================
//  ORACLE  (written from the specification texts, not from the library)
// =====================================================================================================

struct Unit
{
   bool ok;          // a complete well-formed unit starts the input
   uint64_t value;   // its value (code point / integer)
   unsigned len;     // its encoding length N in bytes
   const char* why;  // reason when not ok
};

// RFC 3629, section 4 "Syntax of UTF-8 Byte Sequences":
//    UTF8-1    = %x00-7F
//    UTF8-2    = %xC2-DF UTF8-tail
//    UTF8-3    = %xE0 %xA0-BF UTF8-tail / %xE1-EC 2( UTF8-tail ) / %xED %x80-9F UTF8-tail / %xEE-EF 2( UTF8-tail )
//    UTF8-4    = %xF0 %x90-BF 2( UTF8-tail ) / %xF1-F3 3( UTF8-tail ) / %xF4 %x80-8F 2( UTF8-tail )
//    UTF8-tail = %x80-BF
// and section 3: "Implementations of the decoding algorithm above MUST protect against decoding invalid
// sequences" (overlong forms, D800..DFFF); the value is the concatenation of the x bits of the table in section 3.
struct U8Row
{
   u8 lead_lo, lead_hi, second_lo, second_hi;
   unsigned len;
};
static const U8Row rfc3629_rows[] = {
   { 0x00, 0x7F, 0x00, 0x00, 1 },
   { 0xC2, 0xDF, 0x80, 0xBF, 2 },
   { 0xE0, 0xE0, 0xA0, 0xBF, 3 },
   { 0xE1, 0xEC, 0x80, 0xBF, 3 },
   { 0xED, 0xED, 0x80, 0x9F, 3 },
   { 0xEE, 0xEF, 0x80, 0xBF, 3 },
   { 0xF0, 0xF0, 0x90, 0xBF, 4 },
   { 0xF1, 0xF3, 0x80, 0xBF, 4 },
   { 0xF4, 0xF4, 0x80, 0x8F, 4 },
};

static Unit oracle_utf8( const u8* p, const size_t n )
{
   if( n == 0 ) return { false, 0, 0, "empty input" };
   const u8 lead = p[ 0 ];
   const U8Row* row = nullptr;
   for( const U8Row& r : rfc3629_rows )
      if( lead >= r.lead_lo && lead <= r.lead_hi ) row = &r;
   if( !row ) {
      if( lead <= 0xBF ) return { false, 0, 0, "continuation byte 80..BF in lead position" };
      if( lead <= 0xC1 ) return { false, 0, 0, "overlong 2-byte form (lead C0/C1)" };
      if( lead <= 0xF7 ) return { false, 0, 0, "4-byte form above U+10FFFF (lead F5..F7)" };
      return { false, 0, 0, "invalid lead byte F8..FF" };
   }
   if( row->len == 1 ) return { true, lead, 1, "" };
   // tail bytes, as far as present
   const size_t have = n < row->len ? n : row->len;
   for( size_t i = 1; i < have; ++i ) {
      if( p[ i ] < 0x80 || p[ i ] > 0xBF ) return { false, 0, 0, "lead byte not followed by enough continuation bytes 80..BF" };
   }
   if( have >= 2 && ( p[ 1 ] < row->second_lo || p[ 1 ] > row->second_hi ) ) {
      if( lead == 0xE0 ) return { false, 0, 0, "overlong 3-byte form (E0 80..9F)" };
      if( lead == 0xED ) return { false, 0, 0, "surrogate D800..DFFF encoded in UTF-8 (ED A0..BF)" };
      if( lead == 0xF0 ) return { false, 0, 0, "overlong 4-byte form (F0 80..8F)" };
      return { false, 0, 0, "4-byte form above U+10FFFF (F4 90..BF)" };
   }
   if( n < row->len ) return { false, 0, 0, "truncated multi-byte sequence" };
   static const unsigned lead_payload_modulus[ 5 ] = { 0, 0, 32, 16, 8 };  // 110xxxxx, 1110xxxx, 11110xxx
   uint64_t v = lead % lead_payload_modulus[ row->len ];
   for( unsigned i = 1; i < row->len; ++i ) v = v * 64 + ( p[ i ] - 0x80 );
   return { true, v, row->len, "" };
}

static uint64_t read_be_or_le( const u8* p, const unsigned width, const bool be )
{
   uint64_t v = 0;
   for( unsigned i = 0; i < width; ++i ) {
      const unsigned weight = be ? ( width - 1 - i ) : i;  // significance of byte i
      v += uint64_t( p[ i ] ) << ( 8 * weight );
   }
   return v;
}

// RFC 2781 section 2.2 "Decoding UTF-16": W1 < 0xD800 or W1 > 0xDFFF: the character value is W1;  W1 not between
// 0xD800 and 0xDBFF: error;  no W2 or W2 not between 0xDC00 and 0xDFFF: error;  otherwise
// U' = (10 low bits of W1) * 2^10 + (10 low bits of W2), U = U' + 0x10000.
// Rule-Reference.md: "It is an error when a code unit in the range 0xd800 to 0xdfff is encountered outside of a
// valid UTF-16 surrogate pair"; N is 2 or 4.
static Unit oracle_utf16( const u8* p, const size_t n, const bool be )
{
   if( n < 2 ) return { false, 0, 0, n ? "truncated 16-bit code unit" : "empty input" };
   const uint64_t w1 = read_be_or_le( p, 2, be );
   if( w1 < 0xD800 || w1 > 0xDFFF ) return { true, w1, 2, "" };
   if( w1 > 0xDBFF ) return { false, 0, 0, "lone low surrogate DC00..DFFF" };
   if( n < 4 ) return { false, 0, 0, "high surrogate without a complete second code unit" };
   const uint64_t w2 = read_be_or_le( p + 2, 2, be );
   if( w2 < 0xDC00 || w2 > 0xDFFF ) return { false, 0, 0, "high surrogate not followed by a low surrogate" };
   return { true, ( w1 - 0xD800 ) * 0x400 + ( w2 - 0xDC00 ) + 0x10000, 4, "" };
}

// Unicode D90 "UTF-32 encoding form: ... assigns each Unicode scalar value to a single unsigned 32-bit code unit";
// scalar values (D76) are 0..D7FF and E000..10FFFF.  Rule-Reference.md: valid "in the range 0 to 0x10ffff", N is 4.
static Unit oracle_utf32( const u8* p, const size_t n, const bool be )
{
   if( n < 4 ) return { false, 0, 0, n ? "truncated 32-bit code unit" : "empty input" };
   const uint64_t v = read_be_or_le( p, 4, be );
   if( v > 0x10FFFF ) return { false, 0, 0, "value above U+10FFFF" };
   if( v >= 0xD800 && v <= 0xDFFF ) return { false, 0, 0, "surrogate D800..DFFF as UTF-32 unit" };
   return { true, v, 4, "" };
}

// Rule-Reference.md "Binary Rules": "Succeeds when the input contains at least N bytes"; "input value indicates a
// correspondingly sized integer value read from successive bytes of the input" (endian adjusted).
static Unit oracle_uint( const u8* p, const size_t n, const unsigned width, const bool be )
{
   if( n < width ) return { false, 0, 0, n ? "fewer than N bytes of input" : "empty input" };
   return { true, read_be_or_le( p, width, be ), width, "" };
}

static Unit oracle_unit( const Fam& f, const u8* p, const size_t n )
{
   switch( f.enc ) {
      case ENC_BYTE:
         // "The ASCII rules operate on single bytes"
         return n ? Unit{ true, p[ 0 ], 1, "" } : Unit{ false, 0, 0, "empty input" };
      case ENC_UTF8:
         return oracle_utf8( p, n );
      case ENC_UTF16:
         return oracle_utf16( p, n, f.be );
      case ENC_UTF32:
         return oracle_utf32( p, n, f.be );
      case ENC_UINT:
         return oracle_uint( p, n, f.width, f.be );
   }
   return { false, 0, 0, "?" };
}

// Set membership as documented for one / not_one / range / not_range / ranges (and their mask_ forms):
//   one< C... >      "the input code point is one of the given code points C..." (fails for an empty pack)
//   not_one< C... >  "C is an empty character pack or the input ... is not one of C..."
//   range< C, D >    "C <= B && B <= D"        not_range< C, D >  "B < C || D < B"
//   ranges< C1, D1, ..., [E] >  "sor< range< C1, D1 >, ..., [one< E >] >"
//   mask_*           the same with B replaced by ( B & M )
static bool oracle_member( const Entry& e, uint64_t v )
{
   if( e.masked ) v &= e.mask;
   const std::vector< uint64_t >& a = e.params;
   switch( e.kind ) {
      case K_ANY:
         return true;
      case K_ONE:
         return std::find( a.begin(), a.end(), v ) != a.end();
      case K_NOT_ONE:
         return std::find( a.begin(), a.end(), v ) == a.end();
      case K_RANGE:
         return a[ 0 ] <= v && v <= a[ 1 ];
      case K_NOT_RANGE:
         return v < a[ 0 ] || a[ 1 ] < v;
      case K_RANGES: {
         size_t i = 0;
         for( ; i + 1 < a.size(); i += 2 )
            if( a[ i ] <= v && v <= a[ i + 1 ] ) return true;
         return i < a.size() && v == a[ i ];
      }
      case K_SET:
         return v < 256 && e.set.test( size_t( v ) );
      default:
         return false;
   }
}

// "For ASCII letters a-z and A-Z the match is case insensitive" (istring); every other byte must be identical.
static bool oracle_ascii_ieq( const u8 pattern, const u8 input )
{
   static const char lower[] = "abcdefghijklmnopqrstuvwxyz";
   static const char upper[] = "ABCDEFGHIJKLMNOPQRSTUVWXYZ";
   for( int i = 0; i < 26; ++i )
      if( pattern == u8( lower[ i ] ) || pattern == u8( upper[ i ] ) ) return input == u8( lower[ i ] ) || input == u8( upper[ i ] );
   return pattern == input;
}

struct Expect
{
   bool ok;
   size_t consumed;
   bool illformed;   // refusal is due to an ill-formed / incomplete unit
   const char* why;
};

static Expect oracle_expect_unit( const Entry& e, const Unit& u )
{
   if( !u.ok ) return { false, 0, true, u.why };
   if( !oracle_member( e, u.value ) ) return { false, 0, false, "well-formed unit whose value is outside the documented set" };
   return { true, u.len, false, "" };
}

// string< C... > "Equivalent to seq< one< C >... >", mask_string< M, C... > "seq< mask_one< M, C >... >",
// ascii::string "Matches and consumes a string, a sequence of bytes".
static Expect oracle_expect( const Entry& e, const u8* p, const size_t n )
{
   if( e.kind != K_STRING && e.kind != K_ISTRING ) return oracle_expect_unit( e, oracle_unit( *e.fam, p, n ) );
   size_t pos = 0;
   for( const uint64_t want : e.params ) {
      const Unit u = oracle_unit( *e.fam, p + pos, n - pos );
      if( !u.ok ) return { false, 0, true, u.why };
      const uint64_t v = e.masked ? ( u.value & e.mask ) : u.value;
      const bool same = ( e.kind == K_ISTRING ) ? oracle_ascii_ieq( u8( want ), u8( v ) ) : ( v == want );
      if( !same ) return { false, 0, false, "unit differs from the string" };
      pos += u.len;
   }
   return { true, pos, false, "" };
}

// =====================================================================================================
//  comparison and reporting
// =====================================================================================================

static std::string case_string( const Entry& e, const u8* p, const size_t n )
{
   return vf::hex( std::string( reinterpret_cast< const char* >( p ), n ) ) + ":" + e.name;
}

static std::string outcome( const bool ok, const size_t consumed )
{
   return std::string( ok ? "match" : "no match" ) + ", consumed " + std::to_string( consumed );
}

static void report( const Entry& e, const u8* p, const size_t n, const Expect& x, const Res& r )
{
   std::string cls;
   if( r.ok && !x.ok )
      cls = x.illformed ? std::string( "accepts ill-formed or incomplete unit: " ) + x.why : "accepts a value outside the documented set";
   else if( !r.ok && x.ok )
      cls = "rejects a well-formed unit inside the documented set";
   else if( r.ok )
      cls = "consumes a wrong number of bytes on match";
   else
      cls = "consumes input although it does not match";
   const std::string sig = "C10|" + std::string( e.fam->name ) + "::" + e.kindname + " " + cls;
   const std::string detail = "\"rule\":\"" + vf::jesc( e.name ) + "\",\"input_hex\":\"" + vf::hex( std::string( reinterpret_cast< const char* >( p ), n ) ) + "\",\"expected\":\"" + outcome( x.ok, x.consumed ) + "\",\"observed\":\"" + outcome( r.ok, r.consumed ) + "\",\"oracle\":\"" + vf::jesc( x.why ) + "\"";
   vf::violation( sig, detail, case_string( e, p, n ) );
}

// The library call in progress died (over-read into the guard page, std::terminate, failed assert): report it as a
// violation of the current case, write the STAT line (not exhaustive) and leave.
static void crash_report( const char* how, const long offset )
{
   const Entry* e = g_cur_rule;
   if( !e ) {
      fprintf( stderr, "c10: harness crashed outside a library call (%s)\n", how );
      _exit( 3 );
   }
   g_cur_rule = nullptr;
   const size_t n = g_cur_n;
   const std::string sig = "C10|" + std::string( e->fam->name ) + "::" + e->kindname + " " + how;
   const std::string detail = "\"rule\":\"" + vf::jesc( e->name ) + "\",\"input_hex\":\"" + vf::hex( std::string( reinterpret_cast< const char* >( slot( n ) ), n ) ) + "\",\"expected\":\"match or no match without touching memory past the given size\",\"observed\":\"" + how + ( offset >= 0 ? " at offset " + std::to_string( offset ) + " of a " + std::to_string( n ) + " byte input (guard page fault)" : std::string() ) + "\"";
   vf::violation( sig, detail, case_string( *e, slot( n ), n ) );
   vf::violation( "C03|" + sig.substr( 4 ), detail, case_string( *e, slot( n ), n ) );  // the same event is a bounds violation (C03)
   vf::st.exhaustive = false;
   vf::st.note += " ABORTED after a crash inside the library; remaining domain not explored.";
   vf::finish();
   _exit( 0 );
}

static void on_fault( int, siginfo_t* si, void* )
{
   const u8* a = static_cast< const u8* >( si->si_addr );
   if( a >= g_guard && a < g_guard + g_page ) crash_report( "reads beyond the end of the input", long( a - slot( g_cur_n ) ) );
   fprintf( stderr, "c10: unexpected fault at %p\n", si->si_addr );
   _exit( 3 );
}

static void on_abort( int )
{
   crash_report( "aborts the process (std::terminate or failed assert)", -1 );
}

static void on_terminate()
{
   crash_report( "aborts the process (std::terminate or failed assert)", -1 );
}

// per-family counters
struct FamCount
{
   long cases = 0, matched = 0, refused_illformed = 0, refused_outside = 0;
};
static FamCount g_fc[ 32 ];

static long g_nt_quota = 0;  // remaining nontrivial() insertions of the current section

static inline void section_quota( const long q )
{
   g_nt_quota = q * 2 / 5;  // all sections together stay below ~2 million insertions per shard
}

// Evaluate one placed input (already at slot(n)) against a battery of single-unit rules of ONE family.
static inline void eval_placed( const std::vector< const Entry* >& bat, const size_t n )
{
   const u8* p = slot( n );
   const Fam& f = *bat.front()->fam;
   const Unit u = oracle_unit( f, p, n );
   FamCount& fc = g_fc[ f.idx ];
   g_cur_n = n;
   for( const Entry* e : bat ) {
      g_cur_rule = e;
      const Res r = e->run( reinterpret_cast< const char* >( p ), n );
      const bool want = u.ok && oracle_member( *e, u.value );
      const size_t want_consumed = want ? u.len : 0;
      if( r.ok != want || r.consumed != want_consumed ) report( *e, p, n, oracle_expect_unit( *e, u ), r );
      ++fc.cases;
      if( want )
         ++fc.matched;
      else if( !u.ok )
         ++fc.refused_illformed;
      else
         ++fc.refused_outside;
   }
   g_cur_rule = nullptr;
   vf::st.evaluations += long( bat.size() );
   // non-trivial: a multi-byte unit, or a non-empty input that is refused as ill-formed / incomplete
   if( g_nt_quota > 0 && ( u.len >= 2 || ( !u.ok && n > 0 ) ) ) {
      uint64_t bytes = 0;
      memcpy( &bytes, p, n < 8 ? n : 8 );
      for( const Entry* e : bat ) {
         vf::nontrivial( vf::mix( vf::mix( uint64_t( e->id ), n ), bytes ) );
         --g_nt_quota;
      }
   }
}

static inline void eval( const std::vector< const Entry* >& bat, const u8* bytes, const size_t n )
{
   memcpy( slot( n ), bytes, n );
   eval_placed( bat, n );
}

// Generic (slower) check of any rule incl. string rules; used for string sweeps, samples and replay.
static bool check_full( const Entry& e, const u8* bytes, const size_t n )
{
   u8* p = slot( n );
   memcpy( p, bytes, n );
   const Expect x = oracle_expect( e, p, n );
   g_cur_rule = &e;
   g_cur_n = n;
   const Res r = e.run( reinterpret_cast< const char* >( p ), n );
   g_cur_rule = nullptr;
   ++vf::st.evaluations;
   FamCount& fc = g_fc[ e.fam->idx ];
   ++fc.cases;
   if( x.ok )
      ++fc.matched;
   else if( x.illformed )
      ++fc.refused_illformed;
   else
      ++fc.refused_outside;
   if( g_nt_quota > 0 && n > 0 ) {
      vf::nontrivial( vf::fnv( p, n, vf::mix( 77, uint64_t( e.id ) ) ) );
      --g_nt_quota;
   }
   if( r.ok != x.ok || r.consumed != x.consumed ) {
      report( e, p, n, x, r );
      return false;
   }
   return true;
}

static void sample_case( const std::string& rule, const std::string& bytes )
{
   const auto it = g_by_name.find( rule );
   if( it == g_by_name.end() ) {
      fprintf( stderr, "c10: sample names unknown rule %s\n", rule.c_str() );
      exit( 2 );
   }
   const Entry& e = *it->second;
   const u8* b = reinterpret_cast< const u8* >( bytes.data() );
   memcpy( slot( bytes.size() ), b, bytes.size() );
   const Expect x = oracle_expect( e, slot( bytes.size() ), bytes.size() );
   g_cur_n = bytes.size();
   g_cur_rule = &e;  // a fault while producing a sample is a library fault like any other
   const Res r = e.run( reinterpret_cast< const char* >( slot( bytes.size() ) ), bytes.size() );
   g_cur_rule = nullptr;
   vf::sample( "{\"rule\":\"" + vf::jesc( e.name ) + "\",\"input_hex\":\"" + vf::hex( bytes ) + "\",\"expected\":\"" + outcome( x.ok, x.consumed ) + ( x.ok ? "" : std::string( " (" ) + x.why + ")" ) + "\",\"observed\":\"" + outcome( r.ok, r.consumed ) + "\"}", 8 );
}

// =====================================================================================================
//  rule families (aliases so that one generic registration template serves all namespaces)
// =====================================================================================================

#define C10_COMMON_ALIASES( NS )                                                   \
   using any = pegtl::NS::any;                                                     \
   template< T... C > using one = pegtl::NS::one< C... >;                          \
   template< T... C > using not_one = pegtl::NS::not_one< C... >;                  \
   template< T L, T H > using range = pegtl::NS::range< L, H >;                    \
   template< T L, T H > using not_range = pegtl::NS::not_range< L, H >;            \
   template< T... C > using ranges = pegtl::NS::ranges< C... >;                    \
   template< T... C > using string = pegtl::NS::string< C... >;

#define C10_UNICODE_FAMILY( ID, NS, ENC, WIDTH, BE )          \
   struct ID                                                  \
   {                                                          \
      using T = char32_t;                                     \
      static Fam& fam()                                       \
      {                                                       \
         static Fam f{ #NS, ENC, WIDTH, BE, g_nfam++ };       \
         return f;                                            \
      }                                                       \
      using bom = pegtl::NS::bom;                             \
      C10_COMMON_ALIASES( NS )                                \
   };

#define C10_UINT_FAMILY( ID, NS, TYPE, WIDTH, BE )                                                   \
   struct ID                                                                                         \
   {                                                                                                 \
      using T = TYPE;                                                                                \
      static Fam& fam()                                                                              \
      {                                                                                              \
         static Fam f{ #NS, ENC_UINT, WIDTH, BE, g_nfam++ };                                         \
         return f;                                                                                   \
      }                                                                                              \
      C10_COMMON_ALIASES( NS )                                                                       \
      template< T M, T... C > using mask_one = pegtl::NS::mask_one< M, C... >;                       \
      template< T M, T... C > using mask_not_one = pegtl::NS::mask_not_one< M, C... >;               \
      template< T M, T L, T H > using mask_range = pegtl::NS::mask_range< M, L, H >;                 \
      template< T M, T L, T H > using mask_not_range = pegtl::NS::mask_not_range< M, L, H >;         \
      template< T M, T... C > using mask_ranges = pegtl::NS::mask_ranges< M, C... >;                 \
      template< T M, T... C > using mask_string = pegtl::NS::mask_string< M, C... >;                 \
   };

struct ASCII
{
   using T = char;
   static Fam& fam()
   {
      static Fam f{ "ascii", ENC_BYTE, 1, true, g_nfam++ };
      return f;
   }
   C10_COMMON_ALIASES( ascii )
};

static Fam& abnf_fam()
{
   static Fam f{ "abnf", ENC_BYTE, 1, true, g_nfam++ };
   return f;
}

C10_UNICODE_FAMILY( U8, utf8, ENC_UTF8, 1, true )
C10_UNICODE_FAMILY( U16BE, utf16_be, ENC_UTF16, 2, true )
C10_UNICODE_FAMILY( U16LE, utf16_le, ENC_UTF16, 2, false )
C10_UNICODE_FAMILY( U32BE, utf32_be, ENC_UTF32, 4, true )
C10_UNICODE_FAMILY( U32LE, utf32_le, ENC_UTF32, 4, false )
C10_UINT_FAMILY( I8, uint8, std::uint8_t, 1, true )
C10_UINT_FAMILY( I16BE, uint16_be, std::uint16_t, 2, true )
C10_UINT_FAMILY( I16LE, uint16_le, std::uint16_t, 2, false )
C10_UINT_FAMILY( I32BE, uint32_be, std::uint32_t, 4, true )
C10_UINT_FAMILY( I32LE, uint32_le, std::uint32_t, 4, false )
C10_UINT_FAMILY( I64BE, uint64_be, std::uint64_t, 8, true )
C10_UINT_FAMILY( I64LE, uint64_le, std::uint64_t, 8, false )

// registration helpers: the parameter list is written once and used both as template arguments of the library
// rule and as data of the oracle
#define R_ONE( F, ... ) add< typename F::template one< __VA_ARGS__ > >( F::fam(), "one", "one<" #__VA_ARGS__ ">", K_ONE, PV< typename F::T >( __VA_ARGS__ ) )
#define R_NOT_ONE( F, ... ) add< typename F::template not_one< __VA_ARGS__ > >( F::fam(), "not_one", "not_one<" #__VA_ARGS__ ">", K_NOT_ONE, PV< typename F::T >( __VA_ARGS__ ) )
#define R_RANGE( F, ... ) add< typename F::template range< __VA_ARGS__ > >( F::fam(), "range", "range<" #__VA_ARGS__ ">", K_RANGE, PV< typename F::T >( __VA_ARGS__ ) )
#define R_NOT_RANGE( F, ... ) add< typename F::template not_range< __VA_ARGS__ > >( F::fam(), "not_range", "not_range<" #__VA_ARGS__ ">", K_NOT_RANGE, PV< typename F::T >( __VA_ARGS__ ) )
#define R_RANGES( F, ... ) add< typename F::template ranges< __VA_ARGS__ > >( F::fam(), "ranges", "ranges<" #__VA_ARGS__ ">", K_RANGES, PV< typename F::T >( __VA_ARGS__ ) )
#define R_STRING( F, ... ) add< typename F::template string< __VA_ARGS__ > >( F::fam(), "string", "string<" #__VA_ARGS__ ">", K_STRING, PV< typename F::T >( __VA_ARGS__ ) )

// ---------------------------------------------------------------------------------------------------
//  ASCII and ABNF: the documented sets, transcribed from doc/Rule-Reference.md and RFC 5234 B.1
// ---------------------------------------------------------------------------------------------------

static std::bitset< 256 > chars( const char* s )
{
   std::bitset< 256 > b;
   for( ; *s; ++s ) b.set( u8( *s ) );
   return b;
}

static std::bitset< 256 > span( const unsigned lo, const unsigned hi )
{
   std::bitset< 256 > b;
   for( unsigned i = lo; i <= hi; ++i ) b.set( i );
   return b;
}

template< typename Rule >
static void add_class( Fam& f, const char* name, const std::bitset< 256 >& set )
{
   add< Rule >( f, name, name, K_SET, {} ).set = set;
}

static const char LETTERS_LOWER[] = "abcdefghijklmnopqrstuvwxyz";
static const char LETTERS_UPPER[] = "ABCDEFGHIJKLMNOPQRSTUVWXYZ";
static const char DIGITS[] = "0123456789";

static void reg_ascii()
{
   Fam& f = ASCII::fam();
   const auto letters = chars( LETTERS_LOWER ) | chars( LETTERS_UPPER );
   const auto digits = chars( DIGITS );
   // doc/Rule-Reference.md, "ASCII Rules"
   add_class< pegtl::alnum >( f, "alnum", letters | digits );                        // "a single ASCII alphabetic or numeric character"
   add_class< pegtl::alpha >( f, "alpha", letters );                                 // "a single ASCII alphabetic character"
   add_class< pegtl::any >( f, "any", span( 0, 255 ) );                              // "any single byte"
   add_class< pegtl::blank >( f, "blank", chars( " \t" ) );                          // "horizontal space or horizontal tabulator"
   add_class< pegtl::digit >( f, "digit", digits );                                  // "ASCII decimal digit"
   add_class< pegtl::identifier_first >( f, "identifier_first", letters | chars( "_" ) );
   add_class< pegtl::identifier_other >( f, "identifier_other", letters | digits | chars( "_" ) );
   add_class< pegtl::lower >( f, "lower", chars( LETTERS_LOWER ) );
   add_class< pegtl::nul >( f, "nul", span( 0, 0 ) );                                // "an ASCII nul character"
   add_class< pegtl::odigit >( f, "odigit", chars( "01234567" ) );                   // "ASCII octal digit"
   add_class< pegtl::print >( f, "print", span( 32, 126 ) );                         // "Equivalent to range< 32, 126 >"
   add_class< pegtl::seven >( f, "seven", span( 0, 127 ) );                          // "fits into 7 bits"
   add_class< pegtl::space >( f, "space", chars( " \n\r\t\v\f" ) );                  // space, LF, CR, HT, VT, FF
   add_class< pegtl::upper >( f, "upper", chars( LETTERS_UPPER ) );
   add_class< pegtl::xdigit >( f, "xdigit", digits | chars( "abcdef" ) | chars( "ABCDEF" ) );
   // parameterised rules
   R_ONE( ASCII, 'a' );
   R_ONE( ASCII, 'a', 'z', '\0' );
   R_ONE( ASCII, '\xe9', '\xff', '\x80', '\x7f' );
   add< pegtl::one<> >( f, "one", "one<>", K_ONE, {} );              // "Fails if C is an empty character pack"
   R_NOT_ONE( ASCII, 'a' );
   R_NOT_ONE( ASCII, '\n', '\r', '\0', '\xff' );
   add< pegtl::not_one<> >( f, "not_one", "not_one<>", K_NOT_ONE, {} );  // "C is an empty character pack or ..."
   R_RANGE( ASCII, 'a', 'z' );
   R_RANGE( ASCII, ' ', '~' );
   R_RANGE( ASCII, '\x80', '\xff' );
   R_RANGE( ASCII, '\xa0', '\xbf' );
   R_RANGE( ASCII, '5', '5' );
   R_NOT_RANGE( ASCII, 'a', 'z' );
   R_NOT_RANGE( ASCII, '\x80', '\xff' );
   R_NOT_RANGE( ASCII, '\0', '\x7f' );
   R_NOT_RANGE( ASCII, '0', '0' );
   R_RANGES( ASCII, 'a', 'z', '_' );
   R_RANGES( ASCII, 'a', 'z', 'A', 'Z', '0', '9', '_' );
   R_RANGES( ASCII, '0', '9', 'a', 'f', 'A', 'F' );
   R_RANGES( ASCII, 'x' );
   R_RANGES( ASCII, 'b', 'y' );
   R_RANGES( ASCII, '\x80', '\xbf', '\xe0', '\xef', '\xff' );
   R_RANGES( ASCII, '\0', '\x1f', '\x7f' );
   add< pegtl::ranges<> >( f, "ranges", "ranges<>", K_RANGES, {} );  // "ascii::ranges<>::rule_t is internal::failure"
   // string style rules
   R_STRING( ASCII, 'a', 'b' );
   R_STRING( ASCII, '\0', '\xff', 'A', 'a', '\n' );
   add< pegtl::string<> >( f, "string", "string<>", K_STRING, {} );  // "ascii::string<>::rule_t is internal::success"
   add< pegtl::two< '-' > >( f, "two", "two<'-'>", K_STRING, PV< char >( '-', '-' ) );
   add< pegtl::three< '\xc3' > >( f, "three", "three<'\\xc3'>", K_STRING, PV< char >( '\xc3', '\xc3', '\xc3' ) );
   add< pegtl::ellipsis >( f, "ellipsis", "ellipsis", K_STRING, PV< char >( '.', '.', '.' ) );
#define R_ISTRING( ... ) add< pegtl::istring< __VA_ARGS__ > >( f, "istring", "istring<" #__VA_ARGS__ ">", K_ISTRING, PV< char >( __VA_ARGS__ ) )
   R_ISTRING( 'a' );
   R_ISTRING( 'Z' );
   R_ISTRING( '@' );
   R_ISTRING( 'a', 'Z' );
   R_ISTRING( 'z', 'A' );
   R_ISTRING( '@', '[' );
   R_ISTRING( '`', '{' );
   R_ISTRING( '\xc1', '\xe1' );
   R_ISTRING( '0', '\0' );
   R_ISTRING( 'H', 'e', 'L', 'l', 'o', '@', '[', '`', '{', '1', '\xe9', 'w', 'Z' );
   add< pegtl::istring<> >( f, "istring", "istring<>", K_ISTRING, {} );  // "ascii::istring<>::rule_t is internal::success"

   // RFC 5234, appendix B.1 "Core Rules" (ABNF literal strings are case-insensitive, so HEXDIG includes a-f)
   Fam& g = abnf_fam();
   namespace ab = pegtl::abnf;
   add_class< ab::ALPHA >( g, "ALPHA", span( 0x41, 0x5A ) | span( 0x61, 0x7A ) );  // ALPHA = %x41-5A / %x61-7A
   add_class< ab::BIT >( g, "BIT", chars( "01" ) );                                // BIT = "0" / "1"
   add_class< ab::CHAR >( g, "CHAR", span( 0x01, 0x7F ) );                         // CHAR = %x01-7F
   add_class< ab::CR >( g, "CR", span( 0x0D, 0x0D ) );                             // CR = %x0D
   add_class< ab::CTL >( g, "CTL", span( 0x00, 0x1F ) | span( 0x7F, 0x7F ) );      // CTL = %x00-1F / %x7F
   add_class< ab::DIGIT >( g, "DIGIT", span( 0x30, 0x39 ) );                       // DIGIT = %x30-39
   add_class< ab::DQUOTE >( g, "DQUOTE", span( 0x22, 0x22 ) );                     // DQUOTE = %x22
   add_class< ab::HEXDIG >( g, "HEXDIG", span( 0x30, 0x39 ) | chars( "ABCDEF" ) | chars( "abcdef" ) );  // DIGIT / "A".."F"
   add_class< ab::HTAB >( g, "HTAB", span( 0x09, 0x09 ) );                         // HTAB = %x09
   add_class< ab::LF >( g, "LF", span( 0x0A, 0x0A ) );                             // LF = %x0A
   add_class< ab::OCTET >( g, "OCTET", span( 0x00, 0xFF ) );                       // OCTET = %x00-FF
   add_class< ab::SP >( g, "SP", span( 0x20, 0x20 ) );                             // SP = %x20
   add_class< ab::VCHAR >( g, "VCHAR", span( 0x21, 0x7E ) );                       // VCHAR = %x21-7E
   add_class< ab::WSP >( g, "WSP", span( 0x20, 0x20 ) | span( 0x09, 0x09 ) );      // WSP = SP / HTAB
   add< ab::CRLF >( g, "CRLF", "CRLF", K_STRING, PV< char >( '\r', '\n' ) );       // CRLF = CR LF
}

// ---------------------------------------------------------------------------------------------------
//  Unicode rules: parameters around U+7F/80, U+7FF/800, U+D7FF/E000, U+FFFF/10000, U+10FFFF
// ---------------------------------------------------------------------------------------------------

template< typename F >
static void reg_unicode()
{
   Fam& f = F::fam();
   core( add< typename F::any >( f, "any", "any", K_ANY, {} ) );
   add< typename F::bom >( f, "bom", "bom", K_ONE, { 0xFEFF } );  // "Equivalent to one< 0xfeff >"
   core( R_ONE( F, 0x7F, 0x80, 0x7FF, 0x800, 0xD7FF, 0xE000, 0xFFFF, 0x10000, 0x10FFFF ) );
   R_ONE( F, 0x0 );
   R_ONE( F, 0xD800, 0xDFFF, 0x110000, 0xFFFFFFFF );  // none of these is a valid code point: never matches
   add< typename F::template one<> >( f, "one", "one<>", K_ONE, {} );
   core( R_NOT_ONE( F, 0x7F, 0x80, 0x7FF, 0x800, 0xD7FF, 0xE000, 0xFFFF, 0x10000, 0x10FFFF ) );
   R_NOT_ONE( F, 0x0 );
   add< typename F::template not_one<> >( f, "not_one", "not_one<>", K_NOT_ONE, {} );
   R_RANGE( F, 0x0, 0x7F );
   R_RANGE( F, 0x80, 0x7FF );
   core( R_RANGE( F, 0x800, 0xFFFF ) );
   R_RANGE( F, 0xD7FF, 0xE000 );
   R_RANGE( F, 0xD800, 0xDFFF );  // never matches
   R_RANGE( F, 0x10000, 0x10FFFF );
   R_RANGE( F, 0x10FFFF, 0xFFFFFFFF );
   R_RANGE( F, 0x41, 0x41 );
   core( R_NOT_RANGE( F, 0x80, 0xFFFF ) );
   R_NOT_RANGE( F, 0x0, 0x10FFFF );  // never matches
   R_NOT_RANGE( F, 0x10000, 0x10FFFE );
   R_RANGES( F, 0x7F, 0x80, 0x7FF, 0x800, 0xFFFF, 0x10000 );
   core( R_RANGES( F, 0x0, 0x7F, 0xE000, 0xFFFF, 0x10FFFF ) );
   R_STRING( F, 0x7F, 0x80, 0x7FF, 0x800, 0xD7FF, 0xE000, 0xFFFF, 0x10000, 0x10FFFF, 0x0 );
   R_STRING( F, 0xFEFF );
}

// ---------------------------------------------------------------------------------------------------
//  binary rules
// ---------------------------------------------------------------------------------------------------

// comparison values; their bytes come from the byte set {00,01,7F,80,FE,FF} of the 32/64-bit value domains so
// that the values themselves and both neighbours of the range bounds are enumerated
template< typename T > struct KV;
template<> struct KV< std::uint8_t >
{
   static constexpr std::uint8_t x1 = 0x25, x2 = 0xDA, max = 0xFF;
   static constexpr std::uint8_t masks[ 7 ] = { 0x00, 0xFF, 0x0F, 0xF0, 0xA5, 0x01, 0x80 };
};
template<> struct KV< std::uint16_t >
{
   static constexpr std::uint16_t x1 = 0x0180, x2 = 0xFE7F, max = 0xFFFF;
   static constexpr std::uint16_t masks[ 7 ] = { 0x0000, 0xFFFF, 0x00FF, 0xFF00, 0xA55A, 0x0001, 0x8000 };
};
template<> struct KV< std::uint32_t >
{
   static constexpr std::uint32_t x1 = 0x0001FF80, x2 = 0x80FE017F, max = 0xFFFFFFFF;
   static constexpr std::uint32_t masks[ 7 ] = { 0x00000000, 0xFFFFFFFF, 0x0000FFFF, 0xFF0000FF, 0xA55A0FF0, 0x00000001, 0x80000000 };
};
template<> struct KV< std::uint64_t >
{
   static constexpr std::uint64_t x1 = 0x0001FF807F00FE01, x2 = 0x80FE017FFF0001FE, max = 0xFFFFFFFFFFFFFFFF;
   static constexpr std::uint64_t masks[ 7 ] = { 0x0000000000000000, 0xFFFFFFFFFFFFFFFF, 0x00000000FFFFFFFF, 0xFF000000000000FF, 0xA55A0FF0C33C1248, 0x0000000000000001, 0x8000000000000000 };
};

template< typename F, typename F::T M >
static void reg_masked( const bool with_core )
{
   using T = typename F::T;
   Fam& f = F::fam();
   constexpr T a = T( KV< T >::x1 & M ), b = T( KV< T >::x2 & M );
   constexpr T lo = a < b ? a : b, hi = a < b ? b : a;
   constexpr T raw = KV< T >::x1;  // not representable under most masks: can then never be equal to ( B & M )
   const std::string m = hx( M ) + ",";
   Entry& e1 = add< typename F::template mask_one< M, a, b, raw > >( f, "mask_one", "mask_one<" + m + hxlist( { a, b, raw } ) + ">", K_ONE, { a, b, raw }, true, M );
   add< typename F::template mask_not_one< M, a, b, raw > >( f, "mask_not_one", "mask_not_one<" + m + hxlist( { a, b, raw } ) + ">", K_NOT_ONE, { a, b, raw }, true, M );
   Entry& e2 = add< typename F::template mask_range< M, lo, hi > >( f, "mask_range", "mask_range<" + m + hxlist( { lo, hi } ) + ">", K_RANGE, { lo, hi }, true, M );
   add< typename F::template mask_not_range< M, lo, hi > >( f, "mask_not_range", "mask_not_range<" + m + hxlist( { lo, hi } ) + ">", K_NOT_RANGE, { lo, hi }, true, M );
   add< typename F::template mask_ranges< M, 0, lo, hi, M > >( f, "mask_ranges", "mask_ranges<" + m + hxlist( { 0, lo, hi, M } ) + ">", K_RANGES, { 0, lo, hi, M }, true, M );
   add< typename F::template mask_ranges< M, lo, hi, M > >( f, "mask_ranges", "mask_ranges<" + m + hxlist( { lo, hi, M } ) + ">", K_RANGES, { lo, hi, M }, true, M );
   add< typename F::template mask_string< M, a, b > >( f, "mask_string", "mask_string<" + m + hxlist( { a, b } ) + ">", K_STRING, { a, b }, true, M );
   if( with_core ) {
      core( e1 );
      core( e2 );
   }
}

template< typename F >
static void reg_uint()
{
   using T = typename F::T;
   using K = KV< T >;
   Fam& f = F::fam();
   constexpr T x1 = K::x1, x2 = K::x2, max = K::max;
   core( add< typename F::any >( f, "any", "any", K_ANY, {} ) );
   core( add< typename F::template one< 0, x1, x2, max > >( f, "one", "one<" + hxlist( { 0, x1, x2, max } ) + ">", K_ONE, { 0, x1, x2, max } ) );
   add< typename F::template one<> >( f, "one", "one<>", K_ONE, {} );
   core( add< typename F::template not_one< 0, x1, x2, max > >( f, "not_one", "not_one<" + hxlist( { 0, x1, x2, max } ) + ">", K_NOT_ONE, { 0, x1, x2, max } ) );
   add< typename F::template not_one<> >( f, "not_one", "not_one<>", K_NOT_ONE, {} );
   core( add< typename F::template range< x1, x2 > >( f, "range", "range<" + hxlist( { x1, x2 } ) + ">", K_RANGE, { x1, x2 } ) );
   add< typename F::template range< x1, x1 > >( f, "range", "range<" + hxlist( { x1, x1 } ) + ">", K_RANGE, { x1, x1 } );
   add< typename F::template range< 0, max > >( f, "range", "range<" + hxlist( { 0, max } ) + ">", K_RANGE, { 0, max } );
   core( add< typename F::template not_range< x1, x2 > >( f, "not_range", "not_range<" + hxlist( { x1, x2 } ) + ">", K_NOT_RANGE, { x1, x2 } ) );
   add< typename F::template not_range< 0, max > >( f, "not_range", "not_range<" + hxlist( { 0, max } ) + ">", K_NOT_RANGE, { 0, max } );
   add< typename F::template ranges< 0, x1, x2, max > >( f, "ranges", "ranges<" + hxlist( { 0, x1, x2, max } ) + ">", K_RANGES, { 0, x1, x2, max } );
   core( add< typename F::template ranges< x1, x2, max > >( f, "ranges", "ranges<" + hxlist( { x1, x2, max } ) + ">", K_RANGES, { x1, x2, max } ) );
   add< typename F::template string< x1, x2, 0, max > >( f, "string", "string<" + hxlist( { x1, x2, 0, max } ) + ">", K_STRING, { x1, x2, 0, max } );
   reg_masked< F, K::masks[ 0 ] >( false );
   reg_masked< F, K::masks[ 1 ] >( false );
   reg_masked< F, K::masks[ 2 ] >( false );
   reg_masked< F, K::masks[ 3 ] >( false );
   reg_masked< F, K::masks[ 4 ] >( true );
   reg_masked< F, K::masks[ 5 ] >( false );
   reg_masked< F, K::masks[ 6 ] >( false );
}

static void register_all()
{
   reg_ascii();
   reg_unicode< U8 >();
   reg_unicode< U16BE >();
   reg_unicode< U16LE >();
   reg_unicode< U32BE >();
   reg_unicode< U32LE >();
   reg_uint< I8 >();
   reg_uint< I16BE >();
   reg_uint< I16LE >();
   reg_uint< I32BE >();
   reg_uint< I32LE >();
   reg_uint< I64BE >();
   reg_uint< I64LE >();
}

// =====================================================================================================
//  enumeration
// =====================================================================================================

static long g_item = 0;      // running work item index (items are dealt round-robin to the shards)
static bool g_stop = false;  // deadline reached

static inline bool mine()
{
   return ( g_item++ % vf::args.nshards ) == vf::args.shard;
}

static inline bool mine_outer( const unsigned long i )
{
   return long( i % unsigned( vf::args.nshards ) ) == vf::args.shard;
}

static inline bool tick()
{
   if( !g_stop && vf::out_of_time() ) g_stop = true;
   return g_stop;
}

// deadline check on every n-th call (independent of the loop index, which is correlated with the shard number)
static inline bool tick_every( const unsigned n )
{
   static unsigned long calls = 0;
   return ( ++calls % n == 0 ) ? tick() : g_stop;
}

// all strings of length len over an alphabet; calls f( bytes ) for the shard's share
template< typename Fn >
static void for_strings( const std::vector< u8 >& alphabet, const unsigned len, Fn&& fn )
{
   std::vector< unsigned > idx( len, 0 );
   u8 buf[ 16 ] = {};
   unsigned long k = 0;
   for( ;; ) {
      if( mine() ) {
         for( unsigned i = 0; i < len; ++i ) buf[ i ] = alphabet[ idx[ i ] ];
         fn( buf );
         if( ( ++k & 0xFFF ) == 0 && tick() ) return;
      }
      unsigned pos = len;
      while( pos > 0 ) {
         if( ++idx[ pos - 1 ] < alphabet.size() ) break;
         idx[ pos - 1 ] = 0;
         --pos;
      }
      if( pos == 0 ) return;
   }
}

static void put_unit( u8* p, const uint64_t v, const unsigned width, const bool be )
{
   for( unsigned i = 0; i < width; ++i ) p[ be ? ( width - 1 - i ) : i ] = u8( v >> ( 8 * i ) );
}

static const std::vector< u8 > B_UTF8 = { 0x00, 0x7F, 0x80, 0x8F, 0x90, 0x9F, 0xA0, 0xBF, 0xC0, 0xFF };
static const std::vector< u8 > B_U16BYTE = { 0x00, 0x7F, 0x80, 0xD7, 0xD8, 0xDB, 0xDC, 0xDF, 0xE0, 0xFF };
static const std::vector< unsigned > B_U16UNIT = { 0x0000, 0xD7FF, 0xD800, 0xDBFF, 0xDC00, 0xDFFF, 0xE000, 0xFFFF };
static const std::vector< u8 > B_U32BYTE = { 0x00, 0x01, 0x10, 0x11, 0x7F, 0x80, 0xD7, 0xD8, 0xDF, 0xE0, 0xFF };
static const std::vector< u8 > B_UINT = { 0x00, 0x01, 0x7F, 0x80, 0xFE, 0xFF };

static std::vector< u8 > all_bytes()
{
   std::vector< u8 > v;
   for( unsigned i = 0; i < 256; ++i ) v.push_back( u8( i ) );
   return v;
}

// String style rules: every byte value at every position of the exact encoding, every truncation, and the exact
// encoding followed by a trailing byte.
static std::string encode_for_domain( const Entry& e );

static void sweep_string_rules( const std::string& fam )
{
   section_quota( 100000 );
   for( const Entry* e : g_string_rules[ fam ] ) {
      const std::string exact = encode_for_domain( *e );
      const size_t L = exact.size();
      std::string s;
      for( size_t cut = 0; cut <= L; ++cut )
         if( mine() ) check_full( *e, reinterpret_cast< const u8* >( exact.data() ), cut );
      for( size_t i = 0; i < L; ++i )
         for( unsigned b = 0; b < 256; ++b ) {
            if( !mine() ) continue;
            s = exact;
            s[ i ] = char( b );
            check_full( *e, reinterpret_cast< const u8* >( s.data() ), L );
            // the same mutated string cut directly after the mutated byte
            if( i + 1 < L ) check_full( *e, reinterpret_cast< const u8* >( s.data() ), i + 1 );
         }
      for( unsigned b = 0; b < 256; ++b ) {
         if( !mine() ) continue;
         s = exact + char( b );
         check_full( *e, reinterpret_cast< const u8* >( s.data() ), L + 1 );
      }
      if( tick() ) return;
   }
}

// Input generator for the string sweeps only (the expected result always comes from the oracle decoder, which is
// independent of this encoder; a wrong encoder would show up as a zero "matched" counter, not as a verdict).
static std::string encode_for_domain( const Entry& e )
{
   std::string out;
   for( const uint64_t v : e.params ) {
      u8 b[ 8 ];
      switch( e.fam->enc ) {
         case ENC_BYTE:
            out += char( v );
            break;
         case ENC_UINT:
            put_unit( b, v, e.fam->width, e.fam->be );
            out.append( reinterpret_cast< char* >( b ), e.fam->width );
            break;
         case ENC_UTF32:
            put_unit( b, v, 4, e.fam->be );
            out.append( reinterpret_cast< char* >( b ), 4 );
            break;
         case ENC_UTF16:
            if( v < 0x10000 ) {
               put_unit( b, v, 2, e.fam->be );
               out.append( reinterpret_cast< char* >( b ), 2 );
            }
            else {
               put_unit( b, 0xD800 + ( ( v - 0x10000 ) >> 10 ), 2, e.fam->be );
               put_unit( b + 2, 0xDC00 + ( ( v - 0x10000 ) & 0x3FF ), 2, e.fam->be );
               out.append( reinterpret_cast< char* >( b ), 4 );
            }
            break;
         case ENC_UTF8:
            if( v < 0x80 )
               out += char( v );
            else if( v < 0x800 ) {
               out += char( 0xC0 | ( v >> 6 ) );
               out += char( 0x80 | ( v & 63 ) );
            }
            else if( v < 0x10000 ) {
               out += char( 0xE0 | ( v >> 12 ) );
               out += char( 0x80 | ( ( v >> 6 ) & 63 ) );
               out += char( 0x80 | ( v & 63 ) );
            }
            else {
               out += char( 0xF0 | ( v >> 18 ) );
               out += char( 0x80 | ( ( v >> 12 ) & 63 ) );
               out += char( 0x80 | ( ( v >> 6 ) & 63 ) );
               out += char( 0x80 | ( v & 63 ) );
            }
            break;
      }
   }
   return out;
}

// ---------------- A: ASCII / ABNF ----------------

static void sweep_ascii()
{
   for( const char* fam : { "ascii", "abnf" } ) {
      const auto& bat = g_unit_rules[ fam ];
      section_quota( 150000 );
      u8 b[ 2 ];
      if( mine() ) eval( bat, b, 0 );
      for( unsigned i = 0; i < 256; ++i ) {
         if( !mine() ) continue;
         b[ 0 ] = u8( i );
         eval( bat, b, 1 );
      }
      for( unsigned i = 0; i < 65536; ++i ) {
         if( !mine() ) continue;
         b[ 0 ] = u8( i >> 8 );
         b[ 1 ] = u8( i );
         eval( bat, b, 2 );
      }
      if( tick() ) return;
   }
   // two-character istrings (and every other ascii string rule of length <= 2): all 65536 two-byte inputs
   section_quota( 150000 );
   for( const Entry* e : g_string_rules[ "ascii" ] ) {
      if( e->params.size() > 2 ) continue;
      for( unsigned i = 0; i < 65536; ++i ) {
         if( !mine() ) continue;
         const u8 b[ 2 ] = { u8( i >> 8 ), u8( i ) };
         check_full( *e, b, 2 );
      }
      for( unsigned i = 0; i < 256; ++i ) {
         if( !mine() ) continue;
         const u8 b[ 1 ] = { u8( i ) };
         check_full( *e, b, 1 );
      }
   }
   sweep_string_rules( "ascii" );
   sweep_string_rules( "abnf" );
}

// ---------------- B: UTF-8 ----------------

static void sweep_utf8_base()
{
   const auto& full = g_unit_rules[ "utf8" ];
   u8 b[ 8 ];
   // all sequences of length 0..3
   section_quota( 400000 );
   if( mine() ) eval( full, b, 0 );
   for( unsigned i = 0; i < 256; ++i ) {
      if( !mine() ) continue;
      b[ 0 ] = u8( i );
      eval( full, b, 1 );
   }
   for( unsigned i = 0; i < 65536; ++i ) {
      if( !mine() ) continue;
      b[ 0 ] = u8( i >> 8 );
      b[ 1 ] = u8( i );
      eval( full, b, 2 );
   }
   for( unsigned hi = 0; hi < 65536; ++hi ) {
      if( !mine_outer( hi ) ) continue;
      u8* p = slot( 3 );
      for( unsigned b2 = 0; b2 < 256; ++b2 ) {
         p[ 0 ] = u8( hi >> 8 );
         p[ 1 ] = u8( hi );
         p[ 2 ] = u8( b2 );
         eval_placed( full, 3 );
      }
      if( tick_every( 16 ) ) return;
   }
   vf::count( "utf8.len0to3_all_sequences_done", 1 );
   // structured 4- and 5-byte inputs, full battery: every lead byte x boundary continuation bytes
   section_quota( 300000 );
   for( unsigned lead = 0; lead < 256; ++lead ) {
      for( const u8 c1 : B_UTF8 )
         for( const u8 c2 : B_UTF8 )
            for( const u8 c3 : B_UTF8 ) {
               if( !mine() ) continue;
               b[ 0 ] = u8( lead );
               b[ 1 ] = c1;
               b[ 2 ] = c2;
               b[ 3 ] = c3;
               eval( full, b, 4 );
               for( const u8 t : { u8( 0x41 ), u8( 0x80 ), u8( 0xBF ) } ) {
                  b[ 4 ] = t;
                  eval( full, b, 5 );
               }
            }
      if( tick() ) return;
   }
   sweep_string_rules( "utf8" );
}

// wide 4-byte domain, core battery (runs after the base domains of all families)
static void sweep_utf8_wide( const bool thorough )
{
   const auto& cor = g_core_rules[ "utf8" ];
   const std::vector< const Entry* > any_only = { g_by_name.at( "utf8::any" ) };
   section_quota( 400000 );
   for( unsigned hi = 0; hi < 65536; ++hi ) {
      if( !mine_outer( hi ) ) continue;
      u8* p = slot( 4 );
      const bool everything = thorough || ( hi >> 8 ) >= 0xF0;
      if( everything ) {
         for( unsigned lo = 0; lo < 65536; ++lo ) {
            p[ 0 ] = u8( hi >> 8 );
            p[ 1 ] = u8( hi );
            p[ 2 ] = u8( lo >> 8 );
            p[ 3 ] = u8( lo );
            eval_placed( cor, 4 );
         }
      }
      else {
         // quick: utf8::any alone still sees every four-byte input
         for( unsigned lo = 0; lo < 65536; ++lo ) {
            p[ 0 ] = u8( hi >> 8 );
            p[ 1 ] = u8( hi );
            p[ 2 ] = u8( lo >> 8 );
            p[ 3 ] = u8( lo );
            eval_placed( any_only, 4 );
         }
         for( unsigned b2 = 0; b2 < 256; ++b2 )
            for( const u8 b3 : B_UTF8 ) {
               p[ 0 ] = u8( hi >> 8 );
               p[ 1 ] = u8( hi );
               p[ 2 ] = u8( b2 );
               p[ 3 ] = b3;
               eval_placed( cor, 4 );
            }
      }
      if( tick_every( 16 ) ) return;
   }
   vf::count( thorough ? "utf8.all_2^32_four_byte_inputs_done" : "utf8.quick_four_byte_domain_done", 1 );
}

// ---------------- C: UTF-16 ----------------

static void sweep_utf16_base( const char* fam, const bool be, const bool thorough )
{
   const auto& full = g_unit_rules[ fam ];
   u8 b[ 8 ];
   section_quota( 300000 );
   if( mine() ) eval( full, b, 0 );
   for( unsigned i = 0; i < 256; ++i ) {
      if( !mine() ) continue;
      b[ 0 ] = u8( i );
      eval( full, b, 1 );
   }
   // every first unit: alone (2 bytes), with a third byte (3 bytes), with a boundary second unit (4 bytes)
   const std::vector< u8 > third = thorough ? all_bytes() : B_U16BYTE;
   for( unsigned w1 = 0; w1 < 65536; ++w1 ) {
      if( !mine_outer( w1 ) ) continue;
      put_unit( b, w1, 2, be );
      eval( full, b, 2 );
      for( const u8 t : third ) {
         b[ 2 ] = t;
         eval( full, b, 3 );
      }
      for( const unsigned w2 : B_U16UNIT ) {
         put_unit( b + 2, w2, 2, be );
         eval( full, b, 4 );
      }
      if( tick_every( 16 ) ) return;
   }
   // three boundary units (6 bytes): the rule must consume exactly one code point
   for( const unsigned w1 : B_U16UNIT )
      for( const unsigned w2 : B_U16UNIT )
         for( const unsigned w3 : B_U16UNIT ) {
            if( !mine() ) continue;
            put_unit( b, w1, 2, be );
            put_unit( b + 2, w2, 2, be );
            put_unit( b + 4, w3, 2, be );
            eval( full, b, 6 );
            eval( full, b, 5 );
         }
   sweep_string_rules( fam );
}

// wide domain, core battery: quick = every surrogate first unit x all second units; thorough = all pairs
static void sweep_utf16_wide( const char* fam, const bool be, const bool thorough )
{
   const auto& cor = g_core_rules[ fam ];
   section_quota( 300000 );
   for( unsigned w1 = 0; w1 < 65536; ++w1 ) {
      if( !mine_outer( w1 ) ) continue;
      if( !thorough && ( w1 < 0xD800 || w1 > 0xDFFF ) ) continue;
      u8* p = slot( 4 );
      for( unsigned w2 = 0; w2 < 65536; ++w2 ) {
         put_unit( p, w1, 2, be );
         put_unit( p + 2, w2, 2, be );
         eval_placed( cor, 4 );
      }
      if( tick_every( 16 ) ) return;
   }
   vf::count( ( std::string( fam ) + ( thorough ? ".all_2^32_unit_pairs_done" : ".all_surrogate_first_units_x_all_second_units_done" ) ).c_str(), 1 );
}

// ---------------- D: UTF-32 ----------------

static void sweep_utf32_base( const char* fam, const bool be )
{
   const auto& full = g_unit_rules[ fam ];
   section_quota( 300000 );
   for( unsigned len = 0; len <= 5; ++len ) {
      for_strings( B_U32BYTE, len, [ & ]( const u8* s ) { eval( full, s, len ); } );
      if( g_stop ) return;
   }
   u8 b[ 8 ];
   for( unsigned long v = 0; v <= 0x1100FF; ++v ) {
      if( !mine() ) continue;
      put_unit( b, v, 4, be );
      eval( full, b, 4 );
      if( tick_every( 16 ) ) return;
   }
   for( unsigned long v = 0xFFFFFF00ul; v <= 0xFFFFFFFFul; ++v ) {
      if( !mine() ) continue;
      put_unit( b, v, 4, be );
      eval( full, b, 4 );
   }
   sweep_string_rules( fam );
}

// thorough only: all 2^32 values of a 4-byte unit (utf32 and uint32 families), core battery
static void sweep_all_32bit_values( const char* fam, const bool be )
{
   const auto& cor = g_core_rules[ fam ];
   section_quota( 300000 );
   for( unsigned hi = 0; hi < 65536; ++hi ) {
      if( !mine_outer( hi ) ) continue;
      u8* p = slot( 4 );
      for( unsigned lo = 0; lo < 65536; ++lo ) {
         put_unit( p, ( uint64_t( hi ) << 16 ) | lo, 4, be );
         eval_placed( cor, 4 );
      }
      if( tick_every( 16 ) ) return;
   }
   vf::count( ( std::string( fam ) + ".all_2^32_values_done" ).c_str(), 1 );
}

// ---------------- E: binary rules ----------------

static void sweep_uint( const char* fam, const unsigned width, const bool be )
{
   const auto& full = g_unit_rules[ fam ];
   section_quota( 150000 );
   u8 b[ 16 ];
   if( width <= 2 ) {
      // every value; every truncation; trailing byte
      const unsigned long nvals = 1ul << ( 8 * width );
      if( mine() ) eval( full, b, 0 );
      for( unsigned long v = 0; v < nvals; ++v ) {
         if( !mine() ) continue;
         put_unit( b, v, width, be );
         eval( full, b, width );
         for( const u8 t : { u8( 0x00 ), u8( 0xFF ) } ) {
            b[ width ] = t;
            eval( full, b, width + 1 );
         }
      }
      if( width == 2 )
         for( unsigned i = 0; i < 256; ++i ) {
            if( !mine() ) continue;
            b[ 0 ] = u8( i );
            eval( full, b, 1 );
         }
   }
   else {
      // boundary structured values: every byte from {00,01,7F,80,FE,FF}; all shorter prefixes = all truncations
      for( unsigned len = 0; len <= width; ++len ) {
         for_strings( B_UINT, len, [ & ]( const u8* s ) { eval( full, s, len ); } );
         if( g_stop ) return;
      }
      // a complete value followed by one more byte: exactly N bytes are consumed (values from a thinner alphabet)
      for_strings( { 0x00, 0x7F, 0x80, 0xFF }, width, [ & ]( const u8* s ) {
         memcpy( b, s, width );
         for( const u8 t : { u8( 0x00 ), u8( 0xFF ) } ) {
            b[ width ] = t;
            eval( full, b, width + 1 );
         }
      } );
   }
   if( tick() ) return;
   sweep_string_rules( fam );
}

// =====================================================================================================

static int replay()
{
   const std::string& c = vf::args.the_case;
   const size_t colon = c.find( ':' );
   if( colon == std::string::npos ) {
      fprintf( stderr, "c10: case must be <hex>:<rule name>\n" );
      return 2;
   }
   const std::string bytes = vf::unhex( c.substr( 0, colon ) );
   const auto it = g_by_name.find( c.substr( colon + 1 ) );
   if( it == g_by_name.end() ) {
      fprintf( stderr, "c10: unknown rule '%s'\n", c.substr( colon + 1 ).c_str() );
      return 2;
   }
   check_full( *it->second, reinterpret_cast< const u8* >( bytes.data() ), bytes.size() );
   vf::st.states = vf::st.transitions = vf::st.evaluations;
   vf::finish();
   return 0;
}

int main( int argc, char** argv )
{
   vf::parse_args( argc, argv );
   guard_init();
   register_all();
   if( vf::args.replay ) return replay();
   if( vf::args.nshards < 1 ) vf::args.nshards = 1;
   const bool thorough = vf::args.thorough();

   vf::st.note = thorough
                    ? "C10 thorough: ascii/abnf all 0-2 byte inputs x every class rule; utf8 ALL byte sequences of length 0..4 (2^32 four-byte inputs x core battery of 6 rules, lengths 0..3 and boundary 4/5-byte inputs x full battery of 22 rules); utf16_be/le ALL 2^32 unit pairs (core battery) + all 0..3 byte inputs; utf32_be/le ALL 2^32 values (core) + boundary byte strings of length 0..5; uint8/uint16 all values, uint32 ALL 2^32 values (core battery of 8 rules) + boundary values with all 62 rules (7 masks), uint64 all 6^8 boundary structured values; every truncation of every enumerated unit; string/istring/mask_string rules: every byte at every position. Inputs end at a PROT_NONE page (over-reads fault). Line/column counting of UTF-16/32 and binary rules is out of scope (documented limitation)."
                    : "C10 quick: ascii/abnf all 0-2 byte inputs x every class rule; utf8 ALL byte sequences of length 0..3 x 22 rules, 4-byte inputs: ALL 2^32 x utf8::any, lead F0..FF x all 2^24 continuations and lead 00..EF x all (b1,b2) x b3 in {00,7F,80,8F,90,9F,A0,BF,C0,FF} (core battery of 6 rules), every lead x boundary continuations (full battery, also with a 5th byte); utf16_be/le every first unit alone / + third byte from boundary set / + second unit from {0000,D7FF,D800,DBFF,DC00,DFFF,E000,FFFF} (full battery), every surrogate first unit x ALL second units (core); utf32_be/le all byte strings of length 0..5 over {00,01,10,11,7F,80,D7,D8,DF,E0,FF} and all values 0..0x1100FF, 0xFFFFFF00..0xFFFFFFFF; uint8/uint16 all values, uint32/uint64 all values with bytes from {00,01,7F,80,FE,FF}, 62 rules each (7 masks); every truncation of every enumerated unit; string/istring/mask_string rules: every byte at every position. Inputs end at a PROT_NONE page (over-reads fault). Line/column counting of UTF-16/32 and binary rules is out of scope (documented limitation).";

   // a few real cases for the evidence file
   sample_case( "utf8::any", "\xF4\x8F\xBF\xBF" );
   sample_case( "utf8::any", "\xED\xA0\x80" );
   sample_case( "utf8::any", "\xF0\x8F\xBF\xBF" );
   sample_case( "utf16_le::any", std::string( "\x00\xD8\x00\xDC", 4 ) );
   sample_case( "utf16_be::range<0x10000, 0x10FFFF>", std::string( "\xDB\xFF\xDF", 3 ) );
   sample_case( "utf32_be::any", std::string( "\x00\x11\x00\x00", 4 ) );
   sample_case( "uint16_le::mask_range<0xA55A,0x100,0xA45A>", std::string( "\x5A\xA4", 2 ) );
   sample_case( "ascii::istring<'@', '['>", "`{" );

   // phase 1: the boundary structured / full battery domains of every family (what both tiers share)
   sweep_ascii();
   if( !g_stop ) sweep_utf8_base();
   if( !g_stop ) sweep_utf16_base( "utf16_be", true, thorough );
   if( !g_stop ) sweep_utf16_base( "utf16_le", false, thorough );
   if( !g_stop ) sweep_utf32_base( "utf32_be", true );
   if( !g_stop ) sweep_utf32_base( "utf32_le", false );
   if( !g_stop ) sweep_uint( "uint8", 1, true );
   if( !g_stop ) sweep_uint( "uint16_be", 2, true );
   if( !g_stop ) sweep_uint( "uint16_le", 2, false );
   if( !g_stop ) sweep_uint( "uint32_be", 4, true );
   if( !g_stop ) sweep_uint( "uint32_le", 4, false );
   if( !g_stop ) sweep_uint( "uint64_be", 8, true );
   if( !g_stop ) sweep_uint( "uint64_le", 8, false );
   // phase 2: the wide domains (a deadline can only cut into these)
   if( !g_stop ) sweep_utf8_wide( thorough );
   if( !g_stop ) sweep_utf16_wide( "utf16_be", true, thorough );
   if( !g_stop ) sweep_utf16_wide( "utf16_le", false, thorough );
   if( thorough ) {
      if( !g_stop ) sweep_all_32bit_values( "utf32_be", true );
      if( !g_stop ) sweep_all_32bit_values( "utf32_le", false );
      if( !g_stop ) sweep_all_32bit_values( "uint32_be", true );
      if( !g_stop ) sweep_all_32bit_values( "uint32_le", false );
   }

   vf::count( "rules_registered", long( g_rules.size() ) );
   std::map< std::string, const Fam* > fams;
   for( const Entry& e : g_rules ) fams[ e.fam->name ] = e.fam;
   for( const auto& kv : fams ) {
      const FamCount& c = g_fc[ kv.second->idx ];
      vf::count( ( kv.first + ".cases" ).c_str(), c.cases );
      vf::count( ( kv.first + ".matched" ).c_str(), c.matched );
      vf::count( ( kv.first + ".refused_illformed_or_truncated" ).c_str(), c.refused_illformed );
      vf::count( ( kv.first + ".refused_outside_set" ).c_str(), c.refused_outside );
   }
   vf::st.states = vf::st.transitions = vf::st.evaluations;
   vf::finish();
   return 0;
}
