// C03 for the shipped grammars that the table engine does not reach (http incl. the hand-written chunk
// rules, abnf, json, uri, iri): every token string of bounded length, on a terminator-less buffer with a
// PROT_NONE page directly behind (pass 1) or in front of (pass 2) the data, eager and lazy tracking.
// Oracle: no guard page fault, no peek_char / bump beyond the end of the input (TAO_PEGTL_VERIF hook),
// cursor <= end after the run; the position reported after the run follows the prefix formula (C06).  The match result
// itself is not judged here (C14 / C20 do that).
#include "../engine/hooks.hpp"

#include <tao/pegtl.hpp>
#include <tao/pegtl/contrib/http.hpp>
#include <tao/pegtl/contrib/iri.hpp>
#include <tao/pegtl/contrib/json.hpp>
#include <tao/pegtl/contrib/uri.hpp>

#include <setjmp.h>
#include <signal.h>
#include <sys/mman.h>
#include <unistd.h>

#include "../engine/common.hpp"

namespace p = tao::pegtl;

static char* g_base = nullptr;
static size_t g_page = 4096;
static sigjmp_buf g_jmp;
static volatile sig_atomic_t g_armed = 0;
static void on_fault( int )
{
   if( g_armed ) {
      g_armed = 0;
      siglongjmp( g_jmp, 1 );
   }
   _exit( 99 );
}

struct Outcome
{
   int fault = 0, hook = 0, beyond = 0, moved = 0, badpos = 0;
   const char* hook_what = "";
   std::string pos_info;
};

template< typename Rule, p::tracking_mode P >
static Outcome run( const std::string& s, int mode )
{
   Outcome o;
   char* data = ( mode == 1 ) ? g_base + 2 * g_page - s.size() : g_base + g_page;
   memset( g_base + g_page, 0x5a, g_page );
   memcpy( data, s.data(), s.size() );
   verif_c03 = 0;
   g_armed = 1;
   if( sigsetjmp( g_jmp, 1 ) == 0 ) {
      p::memory_input< P, p::eol::lf_crlf, const char* > in( data, data + s.size(), "src" );
      try {
         // rewind_mode::required: a local failure must leave the cursor where it was (C02, for the rules the table engine does not reach)
         const bool ok = p::parse< Rule, p::nothing, p::normal, p::apply_mode::action, p::rewind_mode::required >( in );
         if( !ok && in.current() != data ) o.moved = 1;
      }
      catch( ... ) {
      }
      g_armed = 0;
      if( in.current() > in.end() || in.current() < data ) o.beyond = 1;
      else {
         // C06: wherever the run ended, the reported position is a function of the consumed prefix (eol::lf_crlf: lines end at LF)
         const auto pos = in.position();
         const std::size_t n = std::size_t( in.current() - data );
         std::size_t line = 1, col = 1;
         for( std::size_t i = 0; i < n; ++i ) {
            if( data[ i ] == '\n' ) {
               ++line;
               col = 1;
            }
            else {
               ++col;
            }
         }
         if( pos.byte != n || pos.line != line || pos.column != col ) {
            o.badpos = 1;
            o.pos_info = "reported " + std::to_string( pos.byte ) + ":" + std::to_string( pos.line ) + ":" + std::to_string( pos.column ) + " formula " + std::to_string( n ) + ":" + std::to_string( line ) + ":" + std::to_string( col );
         }
      }
   }
   else {
      o.fault = 1;
   }
   o.hook = verif_c03;
   o.hook_what = verif_c03_what;
   return o;
}

struct RuleEntry
{
   const char* name;
   Outcome ( *eager )( const std::string&, int );
   Outcome ( *lazy )( const std::string&, int );
   int alphabet;
};
#define RULE( NAME, TYPE, ALPHA ) { NAME, &run< TYPE, p::tracking_mode::eager >, &run< TYPE, p::tracking_mode::lazy >, ALPHA }

static const std::vector< std::string > alpha_http = { "0", "1", "a", "F", "10", "fffffffffffffffe", "ffffffffffffffff", "8000000000000000", "\r\n", "\r", "\n", ";", "=", "x", "\"", "\\", " ", ":", "/", "HTTP/1.1", "GET", ",", "(", ")", "\t", "\xe9" };
static const std::vector< std::string > alpha_json = { "{", "}", "[", "]", ",", ":", "\"", "\\", "u", "a", "0", "1", "-", ".", "e", "t", "tru", "true", "nul", " ", "\n", "\xc3", "\xc3\xa9", "\xe2\x82", "\xf0\x9f\x98" };
static const std::vector< std::string > alpha_uri = { "a", "g", "v", "0", "1", "25", "255", "256", ".", ":", "::", "/", "?", "#", "[", "]", "@", "%", "%4", "%41", "!", "-", "\xc3", "\xc3\xa9", "\xef\xbf" };

static const std::vector< RuleEntry > rules = {
   RULE( "http::chunked_body", p::http::chunked_body, 0 ),
   RULE( "http::chunk", p::http::chunk, 0 ),
   RULE( "http::last_chunk", p::http::last_chunk, 0 ),
   RULE( "http::request_line", p::http::request_line, 0 ),
   RULE( "http::status_line", p::http::status_line, 0 ),
   RULE( "http::header_field", p::http::header_field, 0 ),
   RULE( "http::HTTP_message", p::http::HTTP_message, 0 ),
   RULE( "http::TE", p::http::TE, 0 ),
   RULE( "http::Via", p::http::Via, 0 ),
   RULE( "http::Host", p::http::Host, 0 ),
   RULE( "http::Transfer_Encoding", p::http::Transfer_Encoding, 0 ),
   RULE( "http::quoted_string", p::http::quoted_string, 0 ),
   RULE( "json::text", p::json::text, 1 ),
   RULE( "uri::URI_reference", p::uri::URI_reference, 2 ),
   RULE( "uri::IPv6address", p::uri::IPv6address, 2 ),
   RULE( "iri::IRI_reference", p::iri::IRI_reference, 2 ),
};

static void check( const RuleEntry& r, const std::string& s )
{
   for( int mode = 1; mode <= 2; ++mode ) {
      for( int lazy = 0; lazy < 2; ++lazy ) {
         const Outcome o = lazy ? r.lazy( s, mode ) : r.eager( s, mode );
         ++vf::st.evaluations;
         const std::string cs = std::string( r.name ) + ":" + ( lazy ? "lazy" : "eager" ) + ":" + std::to_string( mode ) + ":" + vf::hex( s );
         const std::string det = "\"rule\":\"" + std::string( r.name ) + "\",\"tracking\":\"" + ( lazy ? "lazy" : "eager" ) + "\",\"guard\":\"" + ( mode == 1 ? "after" : "before" ) + "\",\"input\":\"" + vf::jesc( vf::show( s ) ) + "\"";
         if( o.fault ) vf::violation( std::string( "C03|memory access outside the input buffer (guard page fault)|" ) + r.name, det, cs );
         if( o.hook ) vf::violation( std::string( "C03|" ) + o.hook_what + "|" + r.name, det, cs );
         if( o.beyond ) vf::violation( std::string( "C03|cursor outside the input after the run|" ) + r.name, det, cs );
         if( o.moved ) vf::violation( std::string( "C02|local failure with rewind_mode::required left the cursor moved|" ) + r.name, det, cs );
         if( o.badpos ) vf::violation( std::string( "C06|position after the run differs from the prefix formula|" ) + r.name, det + ",\"info\":\"" + o.pos_info + "\"", cs );
      }
   }
}

int main( int argc, char** argv )
{
   vf::parse_args( argc, argv );
   g_page = size_t( sysconf( _SC_PAGESIZE ) );
   g_base = static_cast< char* >( mmap( nullptr, 3 * g_page, PROT_READ | PROT_WRITE, MAP_PRIVATE | MAP_ANONYMOUS, -1, 0 ) );
   mprotect( g_base, g_page, PROT_NONE );
   mprotect( g_base + 2 * g_page, g_page, PROT_NONE );
   struct sigaction sa;
   memset( &sa, 0, sizeof sa );
   sa.sa_handler = on_fault;
   sa.sa_flags = SA_NODEFER;
   sigaction( SIGSEGV, &sa, nullptr );
   sigaction( SIGBUS, &sa, nullptr );

   if( vf::args.replay ) {
      auto f = vf::split( vf::args.the_case, ':' );
      // name may contain "::"; rebuild from the tail
      const std::string hex = f.back();
      const int mode = atoi( f[ f.size() - 2 ].c_str() );
      const bool lazy = f[ f.size() - 3 ] == "lazy";
      std::string name = vf::args.the_case.substr( 0, vf::args.the_case.size() - hex.size() - f[ f.size() - 2 ].size() - f[ f.size() - 3 ].size() - 3 );
      for( const auto& r : rules )
         if( name == r.name ) {
            const std::string s = vf::unhex( hex );
            const Outcome o = lazy ? r.lazy( s, mode ) : r.eager( s, mode );
            if( o.fault ) vf::violation( std::string( "C03|memory access outside the input buffer (guard page fault)|" ) + r.name, "", vf::args.the_case );
            if( o.hook ) vf::violation( std::string( "C03|" ) + o.hook_what + "|" + r.name, "", vf::args.the_case );
            if( o.beyond ) vf::violation( std::string( "C03|cursor outside the input after the run|" ) + r.name, "", vf::args.the_case );
            if( o.moved ) vf::violation( std::string( "C02|local failure with rewind_mode::required left the cursor moved|" ) + r.name, "", vf::args.the_case );
            if( o.badpos ) vf::violation( std::string( "C06|position after the run differs from the prefix formula|" ) + r.name, "\"info\":\"" + o.pos_info + "\"", vf::args.the_case );
         }
      vf::finish();
      return 0;
   }
   const int L = vf::args.thorough() ? 5 : 4;
   const std::vector< std::string >* alphas[] = { &alpha_http, &alpha_json, &alpha_uri };
   long idx = 0;
   for( const auto& r : rules ) {
      const auto& A = *alphas[ r.alphabet ];
      std::vector< int > ix;
      for( int len = 0; len <= L; ++len ) {
         ix.assign( len, 0 );
         for( ;; ) {
            if( ( idx++ % vf::args.nshards ) == vf::args.shard ) {
               std::string s;
               for( int i : ix ) s += A[ i ];
               check( r, s );
               if( s.size() > 16 && vf::st.distinct.size() < 2000000 ) vf::nontrivial( vf::hstr( std::string( r.name ) + s ) );
               if( ( idx & 0xfffff ) == 0 ) vf::sample( "{\"rule\":\"" + std::string( r.name ) + "\",\"input\":\"" + vf::jesc( vf::show( s ) ) + "\"}" );
            }
            int k = len - 1;
            while( k >= 0 && ++ix[ k ] == int( A.size() ) ) ix[ k-- ] = 0;
            if( k < 0 ) break;
         }
         if( vf::out_of_time() ) break;
      }
   }
   vf::st.states = vf::st.evaluations;
   vf::st.transitions = vf::st.evaluations;
   vf::st.note = "token strings of length <= " + std::to_string( L ) + " over per-grammar alphabets (http 26, json 25, uri 25 tokens) x 16 rules x eager/lazy x guard page after/before";
   vf::finish();
   return 0;
}
