// C12: run a table program through the real parse_tree::parse and flatten the result; build the
// expected tree from the reference derivation (R::Interp::trail).
#pragma once
#include <tao/pegtl/contrib/parse_tree.hpp>

#include "pipeline.hpp"

#ifndef TREE_SEL
#define TREE_SEL 0
#endif

namespace TR
{
   using namespace PL;

   // selection / transformation by rule id:  0 unselected, 1 store_content, 2 remove_content, 3 fold_one, 4 discard_empty
   constexpr int sel_kind( int I )
   {
      switch( TREE_SEL ) {
         case 0: return 1;                      // everything, content stored
         case 1: return ( I % 2 == 0 ) ? 1 : 0;  // even rules only
         case 2: return ( I % 2 == 1 ) ? 1 : 0;  // odd rules only (the root rule is bookkeeping-only)
         case 3: return ( I == 0 ) ? 1 : 3;      // fold_one below the root
         case 4: return ( I == 0 ) ? 1 : 4;      // discard_empty below the root
         case 5: return ( I % 2 == 0 ) ? 2 : 3;  // remove_content / fold_one mixed
         case 6: return 0;                      // nothing selected: only the root node
      }
      return 1;
   }
   template< typename Rule >
   struct sel : std::false_type
   {};
   template< int Kind >
   struct sel_base : std::false_type
   {};
   template<>
   struct sel_base< 1 > : p::parse_tree::store_content
   {};
   template<>
   struct sel_base< 2 > : p::parse_tree::remove_content
   {};
   template<>
   struct sel_base< 3 > : p::parse_tree::fold_one
   {};
   template<>
   struct sel_base< 4 > : p::parse_tree::discard_empty
   {};
   template< unsigned I >
   struct sel< node< I > > : sel_base< sel_kind( int( I ) ) >
   {};

   struct TNode
   {
      int rule, b, e, depth;  // e == -1: content removed
      bool operator==( const TNode& o ) const { return rule == o.rule && b == o.b && e == o.e && depth == o.depth; }
   };
   inline std::string show( const std::vector< TNode >& v )
   {
      std::string s;
      for( auto& n : v ) s += std::string( size_t( n.depth ), '.' ) + "n" + std::to_string( n.rule ) + "[" + std::to_string( n.b ) + "," + std::to_string( n.e ) + ") ";
      return s;
   }

   inline int rule_of_type( std::string_view t )
   {
      for( unsigned i = 0; i < K; ++i )
         if( t == node_names[ i ] ) return int( i );
      return -99;
   }
   inline void flatten( const p::parse_tree::node& n, int depth, std::vector< TNode >& out, std::string& problems )
   {
      for( const auto& c : n.children ) {
         if( !c ) {
            problems += "null child; ";
            continue;
         }
         const int r = rule_of_type( c->type );
         const int b = int( c->m_begin.data - g_begin );
         const int e = c->has_content() ? int( c->m_end.data - g_begin ) : -1;
         // positions stored in the node must follow the prefix formula (C06 at parse-tree nodes)
         const PosF pb = pos_formula( g_begin, b, In::eol_t::ch, g_ib, g_il, g_ic );
         if( c->m_begin.byte != pb.byte || c->m_begin.line != pb.line || c->m_begin.column != pb.column ) problems += "node begin position differs from the prefix formula; ";
         out.push_back( { r, b, e, depth } );
         flatten( *c, depth + 1, out, problems );
      }
   }

   struct TreeResult
   {
      Real r;
      bool has_tree = false;
      bool root_ok = true;
      std::vector< TNode > nodes;
      std::string problems;
   };

   template< template< typename... > class Act, template< typename... > class Ctl, typename... St >
   TreeResult run_tree_act( const Cfg& c, In& in, long fuel_limit, St&... st )
   {
      TreeResult t;
      Real& r = t.r;
      fuel = fuel_limit;
      fuel_out = false;
      top_A = 1;
      L.reset();
      try {
         auto root = p::parse_tree::parse< node< 0 >, sel, Act, Ctl >( in, st... );
         r.kind = root ? Real::OK : Real::FAILED;
         r.pos = int( in.current() - g_begin );
         if( root ) {
            t.has_tree = true;
            t.root_ok = root->is_root() && !root->has_content();
            flatten( *root, 0, t.nodes, t.problems );
         }
      }
      catch( const Fuel& ) {
         r.kind = Real::FUEL;
      }
      catch( const p::parse_error& e ) {
         r.kind = Real::PARSE_ERROR;
         r.msg = std::string( e.message() );
         r.byte = e.position_object().byte;
         r.line = e.position_object().line;
         r.column = e.position_object().column;
         r.what = e.what();
         describe_nested( e, r );
      }
      catch( const HoleStd& e ) {
         r.kind = Real::HOLE_STD;
         r.who = e.node;
      }
      catch( const HoleX& e ) {
         r.kind = Real::HOLE_X;
         r.who = e.node;
      }
      catch( const ActX& e ) {
         r.kind = Real::ACT_X;
         r.who = e.node;
      }
      catch( ... ) {
         r.kind = Real::OTHER;
      }
      if( fuel_out ) r.kind = Real::FUEL;
      (void)c;
      return t;
   }
   // the user control handed to parse_tree::parse: the monitor with a fixed-arity unwind() (the tree's own state must have been
   // removed before the hooks are forwarded), or - ctl 6, only where every table rule is selected, i.e. forwards its
   // hooks (an unselected table rule is never a leaf: its subs_t names every rule) - the must_if table A over the plain
   // normal control, whose failure() raises from inside the tree's own hooks
   inline TreeResult run_tree( const Cfg& c, In& in, long fuel_limit )
   {
#if TREE_SEL == 0
      if( c.ctl == 6 ) return run_tree_act< p::nothing, plain_errA >( c, in, fuel_limit );
      if( c.ctl == 7 ) return run_tree_act< p::nothing, plain_errB >( c, in, fuel_limit );  // n2 raises on failure: reachable below a try_catch with three rules
#endif
      if( c.ctl == 1 ) {
         // one user state handed to parse_tree::parse (selectors' transformers, node hooks and the user control all receive it):
         // the tree must not depend on it
         int user_state = 0;
         if( c.fam == 0 ) return run_tree_act< p::nothing, mon >( c, in, fuel_limit, user_state );
         return run_tree_act< act_apply, mon >( c, in, fuel_limit, user_state );
      }
      if( c.fam == 0 ) return run_tree_act< p::nothing, mon_fix >( c, in, fuel_limit );
      if( c.fam == 5 ) return run_tree_act< act_bool, mon_fix >( c, in, fuel_limit );  // vetoing actions: a vetoed match must leave no node
      if( c.fam == 6 ) return run_tree_act< act_bool0, mon_fix >( c, in, fuel_limit );  // the same through apply0 (the tree's control adaptor must hand the result on)
      return run_tree_act< act_apply, mon_fix >( c, in, fuel_limit );
   }
   // rules whose hooks parse_tree does not forward to the user control: unselected rules that are not leaves (documented
   // behaviour of the tree control); every selected rule must see the whole protocol
   inline bool hooks_optional( int rule, int kind )
   {
      return kind != RK_NODE || sel_kind( rule ) == 0;
   }

   // expected tree from the surviving derivation
   inline std::vector< TNode > expected_tree( const R::Interp& ri )
   {
      struct N
      {
         int rule, b, e;
         bool content = true;
         std::vector< N > kids;
      };
      std::vector< N > stack;
      stack.push_back( { -1, 0, 0, true, {} } );
      for( const auto& t : ri.trail ) {
         if( t.exit == 2 ) continue;
         if( !t.exit ) {
            stack.push_back( { t.rule, t.pos, -1, true, {} } );
            continue;
         }
         N n = std::move( stack.back() );
         stack.pop_back();
         n.e = t.pos;
         N& parent = stack.back();
         switch( sel_kind( n.rule ) ) {
            case 0:  // bookkeeping only: children move up
               for( auto& k : n.kids ) parent.kids.push_back( std::move( k ) );
               break;
            case 1: parent.kids.push_back( std::move( n ) ); break;
            case 2:
               n.content = false;
               parent.kids.push_back( std::move( n ) );
               break;
            case 3:
               if( n.kids.size() == 1 ) {
                  N only = std::move( n.kids.front() );
                  parent.kids.push_back( std::move( only ) );
               }
               else {
                  n.content = false;
                  parent.kids.push_back( std::move( n ) );
               }
               break;
            case 4:
               if( !n.kids.empty() ) {
                  n.content = false;
                  parent.kids.push_back( std::move( n ) );
               }
               break;
         }
      }
      std::vector< TNode > out;
      struct F
      {
         static void go( const N& n, int d, std::vector< TNode >& o )
         {
            for( const auto& k : n.kids ) {
               o.push_back( { k.rule, k.b, k.content ? k.e : -1, d } );
               go( k, d + 1, o );
            }
         }
      };
      F::go( stack.front(), 0, out );
      return out;
   }

}  // namespace TR
