// Observation hooks of /repo (guard TAO_PEGTL_VERIF): must be included before any PEGTL header.
#pragma once
#include <cstddef>

// observation hooks of /repo (guard TAO_PEGTL_VERIF): out-of-window peeks and bumps
inline int verif_c03 = 0;
inline const char* verif_c03_what = "";
inline void verif_peek( const char* cur, std::size_t off, const char* end ) noexcept
{
   if( cur > end || std::size_t( end - cur ) <= off ) {
      ++verif_c03;
      verif_c03_what = "peek_char at or beyond the end of the input window";
   }
}
inline void verif_bump( const char* cur, std::size_t n, const char* end ) noexcept
{
   if( cur > end || std::size_t( end - cur ) < n ) {
      ++verif_c03;
      verif_c03_what = "cursor bumped beyond the end of the input window";
   }
}
#define TAO_PEGTL_VERIF_PEEK( c, o, e ) ::verif_peek( c, o, e )
#define TAO_PEGTL_VERIF_BUMP( c, n, e ) ::verif_bump( c, n, e )

