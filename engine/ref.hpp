// R: the reference PEG interpreter (DESIGN §2.4).  Boring on purpose: positions are integers,
// there are no rewind modes, guards or iterators; every convenience rule is evaluated through the
// expansion documented in doc/Rule-Reference.md.  It reads environment answers (holes, action
// decisions) from the same memo as the implementation.
#pragma once
#include "t.hpp"

namespace R
{
   using namespace T;

   enum Kind
   {
      OK,
      FAIL,
      RAISE,   // parse_error raised by must<>/raise<> naming rule `who`, position in [lo, hi]
      HPE,     // parse_error thrown by a hole, position lo
      HSTD,    // HoleStd thrown by hole `who`
      HX,      // HoleX thrown by hole `who`
      AX,      // ActX thrown by the action of rule `who`
      NESTED   // parse_error produced by try_catch_*_raise_nested for rule `who` at lo, nesting kind `nk`
   };
   struct Res
   {
      int k, pos, who, lo, hi, nk;
   };
   inline Res ok( int pos ) { return { OK, pos, -1, 0, 0, -1 }; }
   inline Res fail() { return { FAIL, 0, -1, 0, 0, -1 }; }
   constexpr int WHO_RAISE_MSG = -10;

   struct Diverge
   {
      int why;  // 0 left recursion, 1 repetition without progress, 2 reference fuel
      int rule, pos;
   };

   // lexical context threaded through the evaluation
   struct Ctx
   {
      int am = 1;      // apply mode: 1 action, 0 nothing
      int fam = 0;     // action family in effect
      int state = -1;  // innermost live LogState id
      int ctl = 1;     // control in effect (1 mon/mon1, 2 mon2)
      Ctx with_am( int v ) const
      {
         Ctx c = *this;
         c.am = v;
         return c;
      }
   };
   constexpr int WHO_LIMIT_DEPTH = -11, WHO_LIMIT_BYTES = -12, WHO_CHECK_BYTES = -13;

   struct TEv
   {
      uint8_t exit;  // 0 enter, 1 exit, 2 action of an apply / apply0 / if_apply rule (rule = pseudo id, b..pos = its input)
      int16_t rule;
      int32_t pos;
      uint8_t amode;
      int32_t b = 0;
      int16_t fam = 0;  // action family in effect for this rule
   };

   // position oracle (C06 formula) over the bytes of the outermost input
   struct Pos
   {
      size_t byte, line, column;
   };
   inline Pos pos_of( const char* data, int off, int eol_kind, size_t b0, size_t l0, size_t c0 )
   {
      const T::PosF f = T::pos_formula( data, off, ( eol_kind == 2 || eol_kind == 4 ) ? '\r' : '\n', b0, l0, c0 );
      return { f.byte, f.line, f.column };
   }
   inline Pos pos_of( const char* data, int off, int eol_kind )
   {
      return pos_of( data, off, eol_kind, T::g_ib, T::g_il, T::g_ic );
   }
   // RFC 3629: length of the well-formed UTF-8 sequence at p (n bytes available), 0 if none
   inline int utf8_len( const char* p, int n )
   {
      if( n < 1 ) return 0;
      const unsigned c0 = (unsigned char)p[ 0 ];
      auto cont = [ & ]( int i ) { return i < n && ( (unsigned char)p[ i ] & 0xC0 ) == 0x80; };
      if( c0 < 0x80 ) return 1;
      if( c0 >= 0xC2 && c0 <= 0xDF ) return cont( 1 ) ? 2 : 0;
      if( c0 >= 0xE0 && c0 <= 0xEF ) {
         if( !cont( 1 ) || !cont( 2 ) ) return 0;
         const unsigned c1 = (unsigned char)p[ 1 ];
         if( c0 == 0xE0 && c1 < 0xA0 ) return 0;
         if( c0 == 0xED && c1 > 0x9F ) return 0;
         return 3;
      }
      if( c0 >= 0xF0 && c0 <= 0xF4 ) {
         if( !cont( 1 ) || !cont( 2 ) || !cont( 3 ) ) return 0;
         const unsigned c1 = (unsigned char)p[ 1 ];
         if( c0 == 0xF0 && c1 < 0x90 ) return 0;
         if( c0 == 0xF4 && c1 > 0x8F ) return 0;
         return 4;
      }
      return 0;
   }

   struct Interp
   {
      const char* data = nullptr;  // == T::g_begin
      int act_family = 0;
      int eol_kind = 0;  // 0 lf_crlf 1 lf 2 cr 3 crlf 4 cr_crlf
      long rfuel = 0;
      int hw = 0;  // high-water mark of positions reached
      std::vector< TEv > trail;
      std::vector< std::array< int, 3 > > stack;  // (rule, pos, end) of active evaluations
      long n_backtrack_after_consume = 0;
      int depth = 0;
      int st_next = 0;
      std::vector< T::StEv > st_log;
      std::vector< T::SwAct > sw_acts;
      std::vector< std::array< int, 3 > > ctl_log;
      std::vector< std::array< int, 3 > > all_acts;  // every action invocation in call order (rule, begin, end), backtracked ones included
      long cov[ 16 ][ 4 ] = {};  // per rule: start, success, failure, unwind (what the coverage facility must count)

      void reset( long f )
      {
         rfuel = f;
         hw = 0;
         trail.clear();
         stack.clear();
         n_backtrack_after_consume = 0;
         depth = 0;
         st_next = 0;
         st_log.clear();
         sw_acts.clear();
         ctl_log.clear();
         memset( cov, 0, sizeof cov );
         all_acts.clear();
      }
      void touch( int pos )
      {
         if( pos > hw ) hw = pos;
      }

      // generic: anything that fails has no effect
      template< typename F >
      Res G( F&& f, int pos )
      {
         const size_t mark = trail.size();
         Res r = f( pos );
         if( r.k == FAIL ) {
            if( trail.size() != mark ) ++n_backtrack_after_consume;
            trail.resize( mark );
         }
         else if( r.k == OK )
            touch( r.pos );
         return r;
      }
      template< typename Fa, typename Fb >
      Res seq( Fa&& a, Fb&& b, int pos )
      {
         return G( [ & ]( int q ) {
            Res r = a( q );
            if( r.k != OK ) return r;
            return b( r.pos );
         },
                   pos );
      }
      template< typename Fa, typename Fb >
      Res sor( Fa&& a, Fb&& b, int pos )
      {
         Res r = G( a, pos );
         if( r.k == FAIL ) return G( b, pos );
         return r;
      }
      template< typename Fa >
      Res star( Fa&& a, int pos )
      {
         for( ;; ) {
            if( --rfuel < 0 ) throw Diverge{ 2, -1, pos };
            Res r = G( a, pos );
            if( r.k == FAIL ) return ok( pos );
            if( r.k != OK ) return r;
            if( r.pos == pos ) throw Diverge{ 1, -1, pos };
            pos = r.pos;
         }
      }
      template< typename Fa >
      Res opt( Fa&& a, int pos )
      {
         Res r = G( a, pos );
         if( r.k == FAIL ) return ok( pos );
         return r;
      }
      template< typename Fa >
      Res at( Fa&& a, int pos )
      {
         Res r = G( a, pos );
         if( r.k == OK ) return ok( pos );
         return r;
      }
      template< typename Fa >
      Res not_at( Fa&& a, int pos )
      {
         const size_t mark = trail.size();
         Res r = G( a, pos );
         trail.resize( mark );
         if( r.k == OK ) return fail();
         if( r.k == FAIL ) return ok( pos );
         return r;
      }
      template< typename Fa >
      Res must( Fa&& a, int who, int pos )
      {
         const int old = hw;
         hw = pos;
         Res r = G( a, pos );
         const int reached = hw;
         if( old > hw ) hw = old;
         if( r.k == FAIL ) return { RAISE, 0, who, pos, reached, -1 };
         return r;
      }
      template< typename Fa >
      Res rep( int n, Fa&& a, int pos )
      {
         return G( [ & ]( int q ) {
            for( int i = 0; i < n; ++i ) {
               Res r = a( q );
               if( r.k != OK ) return r;
               q = r.pos;
            }
            return ok( q );
         },
                   pos );
      }
      template< typename Fa >
      Res rep_opt( int n, Fa&& a, int pos )
      {
         for( int i = 0; i < n; ++i ) {
            Res r = G( a, pos );
            if( r.k == FAIL ) return ok( pos );
            if( r.k != OK ) return r;
            pos = r.pos;
         }
         return ok( pos );
      }
      template< typename Fa, typename Fa0 >
      Res rmm( int lo, int hi, Fa&& a, Fa0&& a0, int pos )  // a0: the same rule with actions off, for the closing not_at
      {
         return G( [ & ]( int q ) {
            Res r = rep( lo, a, q );
            if( r.k != OK ) return r;
            r = rep_opt( hi - lo, a, r.pos );
            if( r.k != OK ) return r;
            Res n = not_at( a0, r.pos );
            if( n.k != OK ) return n;
            return ok( r.pos );
         },
                   pos );
      }

      // "evaluate the condition once" forms.  The documented expansions re-test the condition with
      // not_at< R >; for rules whose outcome is a function of (rule, position) - every PEG expression and
      // every hole - both readings coincide.  They differ only when an *action* inside R vetoes or
      // throws (not_at disables actions), where the prose ("if R matches ... else ...") is the specification.
      template< typename Fc, typename Ft, typename Fe >
      Res ite( Fc&& c, Ft&& t, Fe&& e, int pos )
      {
         return G( [ & ]( int q ) {
            Res r = G( c, q );
            if( r.k == OK ) return t( r.pos );
            if( r.k == FAIL ) return e( q );
            return r;
         },
                   pos );
      }
      template< typename Fc, typename Fr >
      Res strict( Fc&& c, Fr&& rest, int pos )
      {
         return G( [ & ]( int q ) {
            Res r = G( c, q );
            if( r.k == FAIL ) return ok( q );
            if( r.k != OK ) return r;
            return rest( r.pos );
         },
                   pos );
      }
      template< typename Fc, typename Fr >
      Res star_strict( Fc&& c, Fr&& rest, int pos )
      {
         return G( [ & ]( int q ) {
            for( ;; ) {
               if( --rfuel < 0 ) throw Diverge{ 2, -1, q };
               Res r = G( c, q );
               if( r.k == FAIL ) return ok( q );
               if( r.k != OK ) return r;
               Res s = rest( r.pos );
               if( s.k != OK ) return s;
               if( s.pos == q ) throw Diverge{ 1, -1, q };
               q = s.pos;
            }
         },
                   pos );
      }
      template< typename Fc, typename Fb >
      Res until( Fc&& c, Fb&& body, int pos )
      {
         return G( [ & ]( int q ) {
            for( ;; ) {
               if( --rfuel < 0 ) throw Diverge{ 2, -1, q };
               Res r = G( c, q );
               if( r.k == OK ) return r;
               if( r.k != FAIL ) return r;
               Res s = G( body, q );
               if( s.k != OK ) return s;
               if( s.pos == q ) throw Diverge{ 1, -1, q };
               q = s.pos;
            }
         },
                   pos );
      }

      static bool is_ident_first( char c ) { return ( c >= 'a' && c <= 'z' ) || ( c >= 'A' && c <= 'Z' ) || c == '_'; }
      static bool is_ident_other( char c ) { return is_ident_first( c ) || ( c >= '0' && c <= '9' ); }
      Res run_of( char c, int n, int pos, int end ) const
      {
         if( pos + n > end ) return fail();
         for( int i = 0; i < n; ++i )
            if( data[ pos + i ] != c ) return fail();
         return ok( pos + n );
      }
      // rep_min_max< Min, Max, one< C > >: between Min and Max C's, not followed by a further C
      Res romm( char c, int lo, int hi, int pos, int end ) const
      {
         int i = 0;
         while( pos + i < end && data[ pos + i ] == c ) ++i;
         return ( i >= lo && i <= hi ) ? ok( pos + i ) : fail();
      }
      // integer.hpp: "0" not followed by a digit, or a non-zero digit followed by digits; 0 = no match
      int unsigned_len( int pos, int end ) const
      {
         auto dig = [ & ]( int q ) { return q < end && data[ q ] >= '0' && data[ q ] <= '9'; };
         if( !dig( pos ) ) return 0;
         if( data[ pos ] == '0' ) return dig( pos + 1 ) ? 0 : 1;
         int q = pos;
         while( dig( q ) ) ++q;
         return q - pos;
      }
      // Lua long bracket: '[' '='*n '[' ... first ']' '='*n ']'; 0 = no match
      int raw_len( int pos, int end ) const
      {
         int q = pos;
         if( !( q < end && data[ q ] == '[' ) ) return 0;
         ++q;
         int n = 0;
         while( q < end && data[ q ] == '=' ) {
            ++q;
            ++n;
         }
         if( !( q < end && data[ q ] == '[' ) ) return 0;
         ++q;
         for( ; q < end; ++q ) {
            if( data[ q ] != ']' ) continue;
            int k = 0;
            while( q + 1 + k < end && data[ q + 1 + k ] == '=' && k < n ) ++k;
            if( k == n && q + 1 + n < end && data[ q + 1 + n ] == ']' ) return q + n + 2 - pos;
         }
         return 0;
      }
      bool eol_ch( char c ) const
      {
         return ( eol_kind == 2 || eol_kind == 4 ) ? c == '\r' : c == '\n';
      }
      // eol rule of the input's policy: returns bytes matched or -1
      int eol_len( int pos, int end ) const
      {
         auto is = [ & ]( int q, char c ) { return q < end && data[ q ] == c; };
         switch( eol_kind ) {
            case 0: return is( pos, '\n' ) ? 1 : ( is( pos, '\r' ) && is( pos + 1, '\n' ) ) ? 2 : -1;
            case 1: return is( pos, '\n' ) ? 1 : -1;
            case 2: return is( pos, '\r' ) ? 1 : -1;
            case 3: return ( is( pos, '\r' ) && is( pos + 1, '\n' ) ) ? 2 : -1;
            case 4: return is( pos, '\r' ) ? ( is( pos + 1, '\n' ) ? 2 : 1 ) : -1;
         }
         return -1;
      }

      Res ev( int I, int pos, int end, Ctx am )
      {
         if( --rfuel < 0 ) throw Diverge{ 2, I, pos };
         for( auto& s : stack )
            if( s[ 0 ] == I && s[ 1 ] == pos && s[ 2 ] == end ) throw Diverge{ 0, I, pos };
         const Attach at = ( am.fam >= 8 ) ? attach_of( am.fam, I ) : Attach{ AK_NONE, 0 };
         // ---- attachments that act before the rule is attempted (Action< Rule >::match)
         if( at.kind == AK_LIMIT_DEPTH && depth + 1 > at.n ) return { RAISE, 0, WHO_LIMIT_DEPTH, pos, pos, -1 };
         int end2 = end;
         Ctx in = am;  // context for the rule itself and everything below it
         // scoping attachments: the one of the family in effect, and - when it switches to the alternative family whose
         // entry for this rule is itself a switch - that one too (Control< Rule >::match is re-entered with the new family)
         struct Scope
         {
            int state = -1;
            int am_seen = 1;     // apply mode with which this attachment's match() was entered
            int outer_state = -1;
         };
         Scope scopes[ 2 ];
         int nscopes = 0;
         Attach ats[ 2 ] = { at, Attach{ AK_NONE, 0 } };
         int nats = 1;
         if( at.kind == AK_CHANGE_ACTION || at.kind == AK_CHANGE_ACTION_AND_STATE || at.kind == AK_CHANGE_ACTION_AND_STATES || at.kind == AK_CHANGE_ACTION_AND_STATE_D ) {
            const Attach a2 = attach_of( FAM_ALT, I );
            if( a2.kind != AK_APPLY && a2.kind != AK_NONE ) ats[ nats++ ] = a2;
         }
         for( int k = 0; k < nats; ++k ) {
            const int kind = ats[ k ].kind;
            bool mk = false, dflt = false;
            switch( kind ) {
               case AK_LIMIT_BYTES: end2 = std::min( end, pos + ats[ k ].n ); break;
               case AK_CHANGE_STATE:
               case AK_CHANGE_ACTION_AND_STATE: mk = true; break;
               case AK_CHANGE_STATES:
               case AK_CHANGE_ACTION_AND_STATES:
               case AK_CHANGE_STATE_D:
               case AK_CHANGE_ACTION_AND_STATE_D:
                  mk = true;
                  dflt = true;
                  break;
               case AK_ENABLE_ACTION: in.am = 1; break;
               case AK_DISABLE_ACTION: in.am = 0; break;
               case AK_CHANGE_CONTROL: in.ctl = 2; break;
               default: break;
            }
            if( mk ) {
               Scope& sc = scopes[ nscopes++ ];
               sc.state = st_next++;
               sc.am_seen = in.am;
               sc.outer_state = in.state;
               st_log.push_back( { 0, sc.state, dflt ? -1 : pos, dflt ? -2 : in.state } );
               in.state = sc.state;
            }
            if( kind == AK_CHANGE_ACTION || kind == AK_CHANGE_ACTION_AND_STATE || kind == AK_CHANGE_ACTION_AND_STATES || kind == AK_CHANGE_ACTION_AND_STATE_D ) in.fam = FAM_ALT;
         }
         if( at.kind == AK_LIMIT_DEPTH ) ++depth;
         stack.push_back( { I, pos, end } );
         const size_t mark = trail.size();
         const size_t sw_mark = sw_acts.size();
         trail.push_back( { 0, int16_t( I ), pos, uint8_t( in.am ), 0, int16_t( in.fam ) } );
         ctl_log.push_back( { in.ctl, I, pos } );
         ++cov[ I ][ 0 ];
         touch( pos );
         const Entry e = tab[ I ];
         const int hw_old = hw;
         hw = pos;
         Res r = ev_op( e.op, e.a, e.b, e.c, I, pos, end2, in );
         const int hw_rule = hw;
         if( hw_old > hw ) hw = hw_old;
         stack.pop_back();
         if( at.kind == AK_LIMIT_DEPTH ) --depth;
         if( r.k == OK ) {
            touch( r.pos );
            trail.push_back( { 1, int16_t( I ), r.pos, uint8_t( in.am ), 0, int16_t( in.fam ) } );
            if( in.fam < 8 ) {
               const int ak = in.am ? act_kind_of( in.fam, I ) : 0;
               if( ak != 0 ) {
                  const bool is0 = ( ak == 2 || ak == 4 );
                  all_acts.push_back( { I, pos, is0 ? -1 : r.pos } );
                  const int d = act_decision( I, pos, is0 ? -2 : r.pos, ak >= 3 );
                  if( d == 1 && ak >= 3 ) r = fail();  // only a bool action can veto (the decision is memoised per rule and span, whatever family asks)
                  if( d == 2 ) r = { AX, 0, I, pos, r.pos, -1 };
               }
            }
            else if( in.am && attach_of( in.fam, I ).kind == AK_APPLY ) {
               sw_acts.push_back( { I, in.fam, pos, r.pos, in.state } );
            }
         }
         if( r.k == OK ) {
            // ---- attachments that act after the rule matched
            if( at.kind == AK_LIMIT_BYTES && r.pos == end2 && end2 != end ) r = { RAISE, 0, WHO_LIMIT_BYTES, r.pos, r.pos, -1 };
            if( at.kind == AK_CHECK_BYTES && r.pos - pos > at.n ) r = { RAISE, 0, WHO_CHECK_BYTES, r.pos, r.pos, -1 };
         }
         bool failed_then_raised = false;
         if( r.k == FAIL && raises_on_failure( I ) ) {
            // must_if control: the failure hook of this rule raises (position: wherever the failed attempt left the cursor)
            r = { RAISE, 0, I, pos, std::max( pos, hw_rule ), -1 };
            failed_then_raised = true;  // the attempt itself ended as a local failure (what a state wrapped around the control is told)
         }
         for( int k = nscopes - 1; k >= 0; --k ) {
            if( r.k == OK && scopes[ k ].am_seen ) st_log.push_back( { 1, scopes[ k ].state, r.pos, scopes[ k ].outer_state } );
            st_log.push_back( { 2, scopes[ k ].state, -1, -1 } );
         }
         if( r.k == FAIL ) {
            if( trail.size() != mark + 1 ) ++n_backtrack_after_consume;
            trail.resize( mark );
            sw_acts.resize( sw_mark );
         }
         ++cov[ I ][ r.k == OK ? 1 : ( r.k == FAIL || failed_then_raised ) ? 2 : 3 ];
         return r;
      }

      Res ev_op( int op, int a, int b, int c, int self, int pos, int end, Ctx am )
      {
         auto A = [ = ]( int q ) { return ev( a, q, end, am ); };
         auto B = [ = ]( int q ) { return ev( b, q, end, am ); };
         auto C = [ = ]( int q ) { return ev( c, q, end, am ); };
         auto A0 = [ = ]( int q ) { return ev( a, q, end, am.with_am( 0 ) ); };
         auto AB = [ = ]( int q ) { return seq( A, B, q ); };
         auto AB0 = [ = ]( int q ) { return seq( A0, [ = ]( int z ) { return ev( b, z, end, am.with_am( 0 ) ); }, q ); };
         auto BC = [ = ]( int q ) { return seq( B, C, q ); };
         auto ABC = [ = ]( int q ) { return seq( A, BC, q ); };
         auto any = [ = ]( int q ) { return q < end ? ok( q + 1 ) : fail(); };
         auto mustA = [ = ]( int q ) { return must( A, a, q ); };
         auto mustB = [ = ]( int q ) { return must( B, b, q ); };
         auto mustC = [ = ]( int q ) { return must( C, c, q ); };
         auto notA = [ = ]( int q ) { return not_at( A0, q ); };
         auto starB = [ = ]( int q ) { return star( B, q ); };
         auto starC = [ = ]( int q ) { return star( C, q ); };
         auto ch = [ = ]( int q ) { return data[ q ]; };
         auto uc = [ = ]( int q ) { return unsigned( (unsigned char)data[ q ] ); };
         switch( op ) {
            case HOLE: {
               const int an = hole_answer( self, pos, end );
               if( an >= A_SUCC0 ) return ok( pos + an - A_SUCC0 );
               if( an == A_PE ) return { HPE, 0, self, pos, pos, -1 };
               if( an == A_STD ) return { HSTD, 0, self, pos, pos, -1 };
               if( an == A_X ) return { HX, 0, self, pos, pos, -1 };
               const int res = memo.get( MK_RESIDUE, self, pos, end );
               if( res > 0 ) touch( pos + res );
               return fail();
            }
            case THOLE: {  // terminal hole: same answers, never a residue
               const int an = hole_answer( self, pos, end );
               if( an >= A_SUCC0 ) return ok( pos + an - A_SUCC0 );
               if( an == A_PE ) return { HPE, 0, self, pos, pos, -1 };
               if( an == A_STD ) return { HSTD, 0, self, pos, pos, -1 };
               if( an == A_X ) return { HX, 0, self, pos, pos, -1 };
               return fail();
            }
            case ANY: return any( pos );
            case ONE_A: return ( pos < end && ch( pos ) == 'a' ) ? ok( pos + 1 ) : fail();
            case ONE_B: return ( pos < end && ch( pos ) == 'b' ) ? ok( pos + 1 ) : fail();
            case NOT_ONE_A: return ( pos < end && ch( pos ) != 'a' ) ? ok( pos + 1 ) : fail();
            case RANGE_AB: return ( pos < end && ch( pos ) >= 'a' && ch( pos ) <= 'b' ) ? ok( pos + 1 ) : fail();
            case STRING_AB: return ( pos + 2 <= end && ch( pos ) == 'a' && ch( pos + 1 ) == 'b' ) ? ok( pos + 2 ) : fail();
            case ISTRING_AB: return ( pos + 2 <= end && ( ch( pos ) | 32 ) == 'a' && ( ch( pos + 1 ) | 32 ) == 'b' ) ? ok( pos + 2 ) : fail();
            case EOF_: return pos == end ? ok( pos ) : fail();
            case SUCCESS: return ok( pos );
            case FAILURE: return fail();
            case EOL: {
               const int n = eol_len( pos, end );
               return n < 0 ? fail() : ok( pos + n );
            }
            case EOLF: {
               if( pos == end ) return ok( pos );
               const int n = eol_len( pos, end );
               return n < 0 ? fail() : ok( pos + n );
            }
            case BOF: return ( g_ib + size_t( pos ) == 0 ) ? ok( pos ) : fail();
            case BOL: return pos_of( data, pos, eol_kind, g_ib, g_il, g_ic ).column == 1 ? ok( pos ) : fail();
            case ONE_LF: return ( pos < end && ch( pos ) == '\n' ) ? ok( pos + 1 ) : fail();
            case ONE_CR: return ( pos < end && ch( pos ) == '\r' ) ? ok( pos + 1 ) : fail();
            case NOT_ONE_LF: return ( pos < end && ch( pos ) != '\n' ) ? ok( pos + 1 ) : fail();
            case STRING_CRLF: return ( pos + 2 <= end && ch( pos ) == '\r' && ch( pos + 1 ) == '\n' ) ? ok( pos + 2 ) : fail();
            case SEVEN: return ( pos < end && (unsigned char)ch( pos ) < 128 ) ? ok( pos + 1 ) : fail();
            case UTF8_ANY: {
               const int n = utf8_len( data + pos, end - pos );
               return n > 0 ? ok( pos + n ) : fail();
            }
            // ---- one rule per bump-selection path (doc/Rule-Reference.md: one, not_one, range, not_range, ranges, string, istring;
            //      the utf8:: and uint8:: forms; mask_* compare ( byte & M ))
            case ONE_A_LF_CR:
            case ONE_LF_CR_A:
            case U8_ONE_A_LF_CR: return ( pos < end && ( ch( pos ) == 'a' || ch( pos ) == '\n' || ch( pos ) == '\r' ) ) ? ok( pos + 1 ) : fail();
            case RANGE_TAB_CR:
            case U8_RANGE_TAB_CR: return ( pos < end && uc( pos ) >= 9 && uc( pos ) <= 13 ) ? ok( pos + 1 ) : fail();
            case NOT_RANGE_AB: return ( pos < end && !( ch( pos ) == 'a' || ch( pos ) == 'b' ) ) ? ok( pos + 1 ) : fail();
            case RANGES_EOL_LAST:
            case RANGES_EOL_FIRST:
            case U8_RANGES_EOL_LAST: return ( pos < end && ( ch( pos ) == 'a' || ch( pos ) == 'b' || ( uc( pos ) >= 9 && uc( pos ) <= 13 ) ) ) ? ok( pos + 1 ) : fail();
            case RANGES_ODD_LF: return ( pos < end && ( ch( pos ) == 'a' || ch( pos ) == 'b' || ch( pos ) == '\n' ) ) ? ok( pos + 1 ) : fail();
            case RANGES_ODD_CR: return ( pos < end && ( ch( pos ) == 'a' || ch( pos ) == 'b' || ch( pos ) == '\r' ) ) ? ok( pos + 1 ) : fail();
            case STRING_A_LF: return ( pos + 2 <= end && ch( pos ) == 'a' && ch( pos + 1 ) == '\n' ) ? ok( pos + 2 ) : fail();
            case STRING_CR_A: return ( pos + 2 <= end && ch( pos ) == '\r' && ch( pos + 1 ) == 'a' ) ? ok( pos + 2 ) : fail();
            case ISTRING_A_LF: return ( pos + 2 <= end && ( ch( pos ) == 'a' || ch( pos ) == 'A' ) && ch( pos + 1 ) == '\n' ) ? ok( pos + 2 ) : fail();
            case ISTRING_CR_A: return ( pos + 2 <= end && ch( pos ) == '\r' && ( ch( pos + 1 ) == 'a' || ch( pos + 1 ) == 'A' ) ) ? ok( pos + 2 ) : fail();
            case U8_NOT_ONE_A: {  // any well-formed code point other than 'a'
               const int n = utf8_len( data + pos, end - pos );
               return ( n > 0 && !( n == 1 && ch( pos ) == 'a' ) ) ? ok( pos + n ) : fail();
            }
            case U8_NOT_RANGE_AB: {
               const int n = utf8_len( data + pos, end - pos );
               return ( n > 0 && !( n == 1 && ( ch( pos ) == 'a' || ch( pos ) == 'b' ) ) ) ? ok( pos + n ) : fail();
            }
            case UINT8_ANY: return any( pos );
            case UINT8_ONE_LF_CR: return ( pos < end && ( uc( pos ) == 10 || uc( pos ) == 13 ) ) ? ok( pos + 1 ) : fail();
            case UINT8_MASK_ONE: return ( pos < end && ( uc( pos ) & 0xF0 ) == 0x00 ) ? ok( pos + 1 ) : fail();
            case UINT8_MASK_NOT_ONE: return ( pos < end && ( uc( pos ) & 0xF0 ) != 0x60 ) ? ok( pos + 1 ) : fail();
            case UINT8_MASK_RANGE: return ( pos < end && ( uc( pos ) & 0x0F ) >= 0x09 && ( uc( pos ) & 0x0F ) <= 0x0D ) ? ok( pos + 1 ) : fail();
            case UINT8_MASK_NOT_RANGE: return ( pos < end && !( ( uc( pos ) & 0xF0 ) >= 0x60 && ( uc( pos ) & 0xF0 ) <= 0x70 ) ) ? ok( pos + 1 ) : fail();
            case UINT8_MASK_RANGE2: return ( pos < end && ( uc( pos ) & 0xF0 ) <= 0x05 ) ? ok( pos + 1 ) : fail();
            case UINT8_MASK_RANGES2: return ( pos < end && ( ( uc( pos ) & 0xF0 ) <= 0x05 || ( uc( pos ) & 0xF0 ) == 0x60 ) ) ? ok( pos + 1 ) : fail();
            case UINT8_MASK_NOT_ONE2: return ( pos < end && ( uc( pos ) & 0xF0 ) != 0x0A && ( uc( pos ) & 0xF0 ) != 0x0D ) ? ok( pos + 1 ) : fail();
            case UINT8_MASK_RANGES: {
               if( pos >= end ) return fail();
               const unsigned v = uc( pos ) & 0x7F;
               return ( ( v >= 0x61 && v <= 0x62 ) || ( v >= 0x09 && v <= 0x0D ) ) ? ok( pos + 1 ) : fail();
            }
            case BYTES2: return pos + 2 <= end ? ok( pos + 2 ) : fail();
            case EVERYTHING: return ok( end );
            case DISCARD: return ok( pos );
            case REQUIRE2: return pos + 2 <= end ? ok( pos ) : fail();
            case RAISE_MSG: return { RAISE, 0, WHO_RAISE_MSG, pos, pos, -1 };
            // ---- ascii convenience atoms: doc/Rule-Reference.md
            case KEYWORD_AB: {  // seq< string< C... >, not_at< identifier_other > >
               if( !( pos + 2 <= end && ch( pos ) == 'a' && ch( pos + 1 ) == 'b' ) ) return fail();
               if( pos + 2 < end && is_ident_other( ch( pos + 2 ) ) ) return fail();
               return ok( pos + 2 );
            }
            case IDENTIFIER: {  // seq< identifier_first, star< identifier_other > >
               if( !( pos < end && is_ident_first( ch( pos ) ) ) ) return fail();
               int q = pos + 1;
               while( q < end && is_ident_other( ch( q ) ) ) ++q;
               return ok( q );
            }
            case SHEBANG: {  // if_must< string< '#', '!' >, until< eolf > >
               if( !( pos + 2 <= end && ch( pos ) == '#' && ch( pos + 1 ) == '!' ) ) return fail();
               int q = pos + 2;
               for( ;; ) {
                  if( q == end ) return ok( q );
                  const int n = eol_len( q, end );
                  if( n > 0 ) return ok( q + n );
                  ++q;
               }
            }
            case TWO_A: return run_of( 'a', 2, pos, end );
            case THREE_A: return run_of( 'a', 3, pos, end );
            case FORTY_TWO_A: return run_of( 'a', 42, pos, end );
            case RANGES_ACX: return ( pos < end && ( ( ch( pos ) >= 'a' && ch( pos ) <= 'c' ) || ch( pos ) == 'x' ) ) ? ok( pos + 1 ) : fail();
            case REP_STRING2_AB: return ( pos + 4 <= end && ch( pos ) == 'a' && ch( pos + 1 ) == 'b' && ch( pos + 2 ) == 'a' && ch( pos + 3 ) == 'b' ) ? ok( pos + 4 ) : fail();
            case ROMM12_A: return romm( 'a', 1, 2, pos, end );
            case ROMM02_A: return romm( 'a', 0, 2, pos, end );
            case ROMM22_A: return romm( 'a', 2, 2, pos, end );
            case ROMM00_A: return romm( 'a', 0, 0, pos, end );
            // ---- contrib
            case INT_U: {
               const int n = unsigned_len( pos, end );
               return n > 0 ? ok( pos + n ) : fail();
            }
            case INT_S: {
               int q = pos;
               if( q < end && ( ch( q ) == '-' || ch( q ) == '+' ) ) ++q;
               const int n = unsigned_len( q, end );
               return n > 0 ? ok( q + n ) : fail();
            }
            case INT_MAX8:
            case INT_MAX7:
            case INT_MAX300: {
               const int n = unsigned_len( pos, end );
               if( n <= 0 ) return fail();
               unsigned long v = 0;
               for( int i = 0; i < n; ++i ) {
                  v = v * 10 + unsigned( ch( pos + i ) - '0' );
                  if( v > 100000 ) break;
               }
               return v <= ( op == INT_MAX8 ? 255u : op == INT_MAX7 ? 7u : 300u ) ? ok( pos + n ) : fail();
            }
            case RAW: {
               const int n = raw_len( pos, end );
               return n > 0 ? ok( pos + n ) : fail();
            }
            case PRED_AND: return ( pos < end && ( ch( pos ) == 'a' || ch( pos ) == 'c' ) ) ? ok( pos + 1 ) : fail();
            case PRED_NOT: return ( pos < end && ch( pos ) != 'a' ) ? ok( pos + 1 ) : fail();
            case PRED_OR: return ( pos < end && ( ch( pos ) == 'a' || ch( pos ) == 'c' ) ) ? ok( pos + 1 ) : fail();
            case SEPARATED_SEQ: return seq( B, [ = ]( int q ) { return seq( A, C, q ); }, pos );  // separated_seq< S, X, Y > = seq< X, S, Y >
            case IF_THEN_ELSE_THEN: return ite( A, B, C, pos );  // if_then< A, B >::else_then< C >
            case IF_THEN: return ite( A, B, [ = ]( int ) { return fail(); }, pos );
            case IF_THEN_CHAIN:  // if_then< A, B >::else_if_then< B, C >::else_if_then< C, A >: the pairs are tried in the order written
               return ite( A, B, [ = ]( int q ) { return ite( B, C, [ = ]( int z ) { return ite( C, A, [ = ]( int ) { return fail(); }, z ); }, q ); }, pos );  // if_then< A, B > without else: fails when A fails

            case STAR: return star( A, pos );
            case PLUS: return seq( A, [ = ]( int q ) { return star( A, q ); }, pos );
            case OPT: return opt( A, pos );
            case AT: return at( A0, pos );
            case NOT_AT: return not_at( A0, pos );
            case SEQ: return seq( A, B, pos );
            case SOR: return sor( A, B, pos );
            case SEQ1:
            case SOR1: return A( pos );
            case SEQ3: return seq( A, BC, pos );
            case SOR3: return sor( A, [ = ]( int q ) { return sor( B, C, q ); }, pos );
            case STAR2: return star( AB, pos );
            case PLUS2: return seq( AB, [ = ]( int q ) { return star( AB, q ); }, pos );
            case OPT2: return opt( AB, pos );
            case AT2: return at( AB0, pos );
            case NOT_AT2: return not_at( AB0, pos );

            case IF_THEN_ELSE: return ite( A, B, C, pos );
            case IF_MUST: return seq( A, mustB, pos );
            case OPT_MUST: return opt( [ = ]( int q ) { return seq( A, mustB, q ); }, pos );
            case IF_MUST_ELSE: return ite( A, mustB, mustC, pos );
            case IF_MUST3: return seq( A, [ = ]( int q ) { return seq( mustB, mustC, q ); }, pos );
            case OPT_MUST3: return opt( [ = ]( int q ) { return seq( A, [ = ]( int z ) { return seq( mustB, mustC, z ); }, q ); }, pos );
            case MUST: return must( A, a, pos );
            case MUST2: return seq( mustA, mustB, pos );
            case STAR_MUST: return star( [ = ]( int q ) { return seq( A, mustB, q ); }, pos );
            case STAR_MUST3: return star( [ = ]( int q ) { return seq( A, [ = ]( int z ) { return seq( mustB, mustC, z ); }, q ); }, pos );
            case LIST: return seq( A, [ = ]( int q ) { return star( [ = ]( int z ) { return seq( B, A, z ); }, q ); }, pos );
            case LIST3: {
               auto padBC = [ = ]( int q ) { return seq( starC, [ = ]( int z ) { return seq( B, starC, z ); }, q ); };
               return seq( A, [ = ]( int q ) { return star( [ = ]( int z ) { return seq( padBC, A, z ); }, q ); }, pos );
            }
            case LIST_MUST: return seq( A, [ = ]( int q ) { return star( [ = ]( int z ) { return seq( B, mustA, z ); }, q ); }, pos );
            case LIST_MUST3: {
               auto padBC = [ = ]( int q ) { return seq( starC, [ = ]( int z ) { return seq( B, starC, z ); }, q ); };
               return seq( A, [ = ]( int q ) { return star( [ = ]( int z ) { return seq( padBC, mustA, z ); }, q ); }, pos );
            }
            case LIST_TAIL: {
               auto list = [ = ]( int q ) { return seq( A, [ = ]( int y ) { return star( [ = ]( int z ) { return seq( B, A, z ); }, y ); }, q ); };
               return seq( list, [ = ]( int q ) { return opt( B, q ); }, pos );
            }
            case LIST_TAIL3: {
               auto padBC = [ = ]( int q ) { return seq( starC, [ = ]( int z ) { return seq( B, starC, z ); }, q ); };
               auto list = [ = ]( int q ) { return seq( A, [ = ]( int y ) { return star( [ = ]( int z ) { return seq( padBC, A, z ); }, y ); }, q ); };
               return seq( list, [ = ]( int q ) { return opt( [ = ]( int z ) { return seq( starC, B, z ); }, q ); }, pos );
            }
            case MINUS: {
               // rematch< M, not_at< S, eof > >
               return G( [ = ]( int q ) {
                  Res r = A( q );
                  if( r.k != OK ) return r;
                  const int e2 = r.pos;
                  auto S_eof = [ = ]( int z ) { return seq( [ = ]( int y ) { return ev( b, y, e2, am.with_am( 0 ) ); }, [ = ]( int y ) { return y == e2 ? ok( y ) : fail(); }, z ); };
                  Res s = not_at( S_eof, q );
                  if( s.k != OK ) return s;
                  return ok( e2 );
               },
                         pos );
            }
            case REMATCH:
            case REMATCH3: {
               return G( [ = ]( int q ) {
                  Res r = A( q );
                  if( r.k != OK ) return r;
                  const int e2 = r.pos;
                  Res s = ev( b, q, e2, am );
                  if( s.k != OK ) return s;
                  if( op == REMATCH3 ) {
                     Res t = ev( c, q, e2, am );
                     if( t.k != OK ) return t;
                  }
                  return ok( e2 );
               },
                         pos );
            }
            case PAD: return seq( starB, [ = ]( int q ) { return seq( A, starB, q ); }, pos );
            case PAD3: return seq( starB, [ = ]( int q ) { return seq( A, starC, q ); }, pos );
            case PAD_OPT: return seq( starB, [ = ]( int q ) { return opt( [ = ]( int z ) { return seq( A, starB, z ); }, q ); }, pos );
            case PARTIAL1: return opt( A, pos );
            case PARTIAL: return opt( [ = ]( int q ) { return seq( A, [ = ]( int z ) { return opt( B, z ); }, q ); }, pos );
            case PARTIAL3: return opt( [ = ]( int q ) { return seq( A, [ = ]( int z ) { return opt( [ = ]( int y ) { return seq( B, [ = ]( int x ) { return opt( C, x ); }, y ); }, z ); }, q ); }, pos );
            case STAR_PARTIAL1: return star( A, pos );
            case STAR_PARTIAL:
            case STAR_PARTIAL3: {
               for( ;; ) {
                  if( --rfuel < 0 ) throw Diverge{ 2, self, pos };
                  Res r = G( A, pos );
                  if( r.k == FAIL ) return ok( pos );
                  if( r.k != OK ) return r;
                  Res s = G( B, r.pos );
                  if( s.k == FAIL ) return ok( r.pos );
                  if( s.k != OK ) return s;
                  if( op == STAR_PARTIAL3 ) {
                     Res t = G( C, s.pos );
                     if( t.k == FAIL ) return ok( s.pos );
                     if( t.k != OK ) return t;
                     s = t;
                  }
                  if( s.pos == pos ) throw Diverge{ 1, self, pos };
                  pos = s.pos;
               }
            }
            case STRICT1: return strict( A, [ = ]( int q ) { return ok( q ); }, pos );
            case STRICT: return strict( A, B, pos );
            case STRICT3: return strict( A, BC, pos );
            case STAR_STRICT1: return star_strict( A, [ = ]( int q ) { return ok( q ); }, pos );
            case STAR_STRICT: return star_strict( A, B, pos );
            case STAR_STRICT3: return star_strict( A, BC, pos );
            case UNTIL1: return until( A, any, pos );
            case UNTIL2: return until( A, B, pos );
            case UNTIL3: return until( A, BC, pos );

            case REP0: return ok( pos );
            case REP1: return rep( 1, A, pos );
            case REP2: return rep( 2, A, pos );
            case REP3: return rep( 3, A, pos );
            case REP4: return rep( 4, A, pos );
            case REP2_2: return rep( 2, AB, pos );
            case REP_MIN0:
            case REP_MIN1:
            case REP_MIN2:
            case REP_MIN3:
            case REP_MIN4: {
               const int n = op - REP_MIN0;
               return seq( [ = ]( int q ) { return rep( n, A, q ); }, [ = ]( int q ) { return star( A, q ); }, pos );
            }
            case REP_MIN2_2: return seq( [ = ]( int q ) { return rep( 2, AB, q ); }, [ = ]( int q ) { return star( AB, q ); }, pos );
            case REP_MIN1_2: return seq( [ = ]( int q ) { return rep( 1, AB, q ); }, [ = ]( int q ) { return star( AB, q ); }, pos );
            case REP_MIN0_2: return star( AB, pos );
            case REP_MAX0:
            case REP_MAX1:
            case REP_MAX2:
            case REP_MAX3:
            case REP_MAX4: return rmm( 0, op - REP_MAX0, A, A0, pos );
            case REP_OPT1:
            case REP_OPT2:
            case REP_OPT3:
            case REP_OPT4: return rep_opt( op - REP_OPT1 + 1, A, pos );
            case REP_OPT2_2: return rep_opt( 2, AB, pos );
            case RMM00: return rmm( 0, 0, A, A0, pos );
            case RMM01: return rmm( 0, 1, A, A0, pos );
            case RMM02: return rmm( 0, 2, A, A0, pos );
            case RMM03: return rmm( 0, 3, A, A0, pos );
            case RMM04: return rmm( 0, 4, A, A0, pos );
            case RMM11: return rmm( 1, 1, A, A0, pos );
            case RMM12: return rmm( 1, 2, A, A0, pos );
            case RMM13: return rmm( 1, 3, A, A0, pos );
            case RMM14: return rmm( 1, 4, A, A0, pos );
            case RMM22: return rmm( 2, 2, A, A0, pos );
            case RMM23: return rmm( 2, 3, A, A0, pos );
            case RMM24: return rmm( 2, 4, A, A0, pos );
            case RMM33: return rmm( 3, 3, A, A0, pos );
            case RMM34: return rmm( 3, 4, A, A0, pos );
            case RMM44: return rmm( 4, 4, A, A0, pos );
            case RMM12_2: return rmm( 1, 2, AB, AB0, pos );

            case RAISE_OF: return { RAISE, 0, a, pos, pos, -1 };
            case TC_RF:
            case TC_ANY_RF:
            case TC_STD_RF:
            case TC_TYPE_RF:
            case TC_RF2: {
               const size_t mark = trail.size();
               Res r = ( op == TC_RF2 ) ? AB( pos ) : A( pos );
               if( catches( op, r.k ) ) {
                  trail.resize( mark );
                  return fail();
               }
               return r;
            }
            case TC_RN:
            case TC_ANY_RN:
            case TC_STD_RN:
            case TC_TYPE_RN: {
               Res r = A( pos );
               if( catches( op, r.k ) ) return { NESTED, 0, a, pos, pos, r.k };
               return r;
            }
            case TC_RN_MSG: return { NESTED, 0, WHO_RAISE_MSG, pos, pos, RAISE };  // the rule's own error_message is used for the outer exception too
            case OPT_ONE_A: return ( pos < end && ch( pos ) == 'a' ) ? ok( pos + 1 ) : ok( pos );
            case AT_ONE_A: return ( pos < end && ch( pos ) == 'a' ) ? ok( pos ) : fail();
            case NOT_AT_ONE_A: return ( pos < end && ch( pos ) == 'a' ) ? fail() : ok( pos );
            // star< sor< one< c >, one< 'a' > > > and star< sor< one< c >, success > > for characters that are special in printed type names
            case STAR_NA_SEMI: return star( [ = ]( int q ) { return ( q < end && ( ch( q ) == ';' || ch( q ) == 'a' ) ) ? ok( q + 1 ) : fail(); }, pos );
            case STAR_NA_RBR: return star( [ = ]( int q ) { return ( q < end && ( ch( q ) == ']' || ch( q ) == 'a' ) ) ? ok( q + 1 ) : fail(); }, pos );
            case STAR_NA_EQ: return star( [ = ]( int q ) { return ( q < end && ( ch( q ) == '=' || ch( q ) == 'a' ) ) ? ok( q + 1 ) : fail(); }, pos );
            case STAR_NA_COMMA: return star( [ = ]( int q ) { return ( q < end && ( ch( q ) == ',' || ch( q ) == 'a' ) ) ? ok( q + 1 ) : fail(); }, pos );
            case STAR_NA_GT: return star( [ = ]( int q ) { return ( q < end && ( ch( q ) == '>' || ch( q ) == 'a' ) ) ? ok( q + 1 ) : fail(); }, pos );
            case STAR_NA_QUOTE: return star( [ = ]( int q ) { return ( q < end && ( ch( q ) == '\'' || ch( q ) == 'a' ) ) ? ok( q + 1 ) : fail(); }, pos );
            case ACTION_ALT:
            case CONTROL_ALT: return A( pos );
            case CUSTOM_ANY: return seq( A, [ = ]( int q ) { return ( q < end && ch( q ) == ';' ) ? ok( q + 1 ) : fail(); }, pos );  // [Equivalent] to seq< R... > with respect to matching
            case RAW1: {
               // opening long bracket, then until< at close, Contents >, then the closing bracket
               int q = pos;
               if( !( q < end && ch( q ) == '[' ) ) return fail();
               ++q;
               int n = 0;
               while( q < end && ch( q ) == '=' ) {
                  ++q;
                  ++n;
               }
               if( !( q < end && ch( q ) == '[' ) ) return fail();
               ++q;
               const int nl = eol_len( q, end );
               if( nl > 0 ) q += nl;
               return G( [ = ]( int z ) {
                  for( ;; ) {
                     if( --rfuel < 0 ) throw Diverge{ 2, self, z };
                     bool close = ( z + n + 2 <= end && ch( z ) == ']' && ch( z + n + 1 ) == ']' );
                     for( int i = 0; close && i < n; ++i ) close = ( ch( z + 1 + i ) == '=' );
                     if( close ) return ok( z + n + 2 );
                     Res r = G( A, z );
                     if( r.k != OK ) return r;
                     if( r.pos == z ) throw Diverge{ 1, self, z };
                     z = r.pos;
                  }
               }, q );
            }
            case IF_APPLY: {  // [Equivalent] to seq< R, apply< A... > > wrt. parsing; the action sees what R matched
               if( !am.am ) return A( pos );
               return G( [ = ]( int q ) {
                  Res r = A( q );
                  if( r.k != OK ) return r;
                  trail.push_back( { 2, int16_t( RULE_ACTION_ID ), r.pos, 1, q } );
                  all_acts.push_back( { RULE_ACTION_ID, q, r.pos } );
                  const int d = act_decision( RULE_ACTION_ID, q, r.pos, true );
                  if( d == 1 ) return fail();
                  if( d == 2 ) return Res{ AX, 0, RULE_ACTION_ID, q, r.pos, -1 };
                  return r;
               },
                         pos );
            }
            case APPLY:
            case APPLY0: {
               if( !am.am ) return ok( pos );
               const int id = ( op == APPLY ) ? RULE_ACTION_ID : RULE_ACTION0_ID;
               trail.push_back( { 2, int16_t( id ), ( op == APPLY ) ? pos : -1, 1, pos } );
               all_acts.push_back( { id, pos, ( op == APPLY ) ? pos : -1 } );
               const int d = act_decision( id, pos, ( op == APPLY ) ? pos : -2, true );
               if( d == 1 ) {
                  trail.pop_back();
                  return fail();
               }
               if( d == 2 ) return { AX, 0, id, pos, pos, -1 };
               return ok( pos );
            }
            case ACTION_SW: {  // action< act_odd, R >: family 4 (actions on odd rules only) inside R, the old family again afterwards
               Ctx in = am;
               in.fam = 4;
               return ev( a, pos, end, in );
            }
            case ACTION_FAMALT: {  // action< fam_alt, R >: the alternative attachment family inside R, whatever the apply mode
               Ctx in = am;
               in.fam = FAM_ALT;
               return ev( a, pos, end, in );
            }
            case CONTROL_SW: {
               Ctx in = am;
               in.ctl = 2;
               return ev( a, pos, end, in );
            }
            case ENABLE: return ev( a, pos, end, am.with_am( 1 ) );
            case STATE: {  // state< LogState, R >: new state for R; success( in, outer... ) iff R matched, whatever the apply mode
               const int id = st_next++;
               st_log.push_back( { 0, id, pos, am.state } );
               Ctx in = am;
               in.state = id;
               Res r = ev( a, pos, end, in );
               if( r.k == OK ) st_log.push_back( { 1, id, r.pos, am.state } );
               st_log.push_back( { 2, id, -1, -1 } );
               return r;
            }
            case STAR_SORX_SEMI: return star( [ = ]( int q ) { return ( q < end && ch( q ) == ';' ) ? ok( q + 1 ) : A( q ); }, pos );
            case STAR_SORX_RBR: return star( [ = ]( int q ) { return ( q < end && ch( q ) == ']' ) ? ok( q + 1 ) : A( q ); }, pos );
            case STAR_SORX_EQ: return star( [ = ]( int q ) { return ( q < end && ch( q ) == '=' ) ? ok( q + 1 ) : A( q ); }, pos );
            case STAR_SORX_COMMA: return star( [ = ]( int q ) { return ( q < end && ch( q ) == ',' ) ? ok( q + 1 ) : A( q ); }, pos );
            case STAR_SORX_GT: return star( [ = ]( int q ) { return ( q < end && ch( q ) == '>' ) ? ok( q + 1 ) : A( q ); }, pos );
            case STAR_SORX_QUOTE: return star( [ = ]( int q ) { return ( q < end && ch( q ) == '\'' ) ? ok( q + 1 ) : A( q ); }, pos );
            case STATE_D: {  // state< LogStateD, R >: the state is default constructed; success( in, outer... ) iff R matched, whatever the apply mode
               const int id = st_next++;
               st_log.push_back( { 0, id, -1, -2 } );
               Ctx in = am;
               in.state = id;
               Res r = ev( a, pos, end, in );
               if( r.k == OK ) st_log.push_back( { 1, id, r.pos, am.state } );
               st_log.push_back( { 2, id, -1, -1 } );
               return r;
            }
            case DISABLE: return ev( a, pos, end, am.with_am( 0 ) );
         }
         fprintf( stderr, "FATAL: reference has no semantics for op %s\n", opinfo[ op ].name );
         abort();
      }

      static bool catches( int op, int k )
      {
         const bool pe = ( k == RAISE || k == HPE || k == NESTED );
         switch( op ) {
            case TC_RF:
            case TC_RF2:
            case TC_RN: return pe;
            case TC_STD_RF:
            case TC_STD_RN: return pe || k == HSTD;
            case TC_ANY_RF:
            case TC_ANY_RN: return k != OK && k != FAIL;
            case TC_TYPE_RF:
            case TC_TYPE_RN: return k == HX;
         }
         return false;
      }
   };

}  // namespace R
