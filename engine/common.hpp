// Shared plumbing for all harness binaries: argument parsing, counters, violation / sample
// reporting and the line protocol spoken to verif.py.
//
//   V\t<signature>\t<json detail>      one line per reported violation (capped per signature)
//   STAT\t<json>                        exactly one line at the end of a run
//
// A harness is started as   bin <tier> <shard> <nshards> [deadline_s]   for exploration or
//                            bin case '<case string>'                    to replay one execution.
#pragma once
#include <chrono>
#include <exception>
#include <unistd.h>
#include <cstdint>
#include <cstdio>
#include <cstdlib>
#include <cstring>
#include <map>
#include <string>
#include <unordered_set>
#include <vector>

namespace vf
{
   struct Args
   {
      std::string tier = "quick";
      int shard = 0;
      int nshards = 1;
      double deadline_s = 1e9;
      bool replay = false;
      std::string the_case;
      bool thorough() const { return tier == "thorough"; }
   };

   inline Args args;
   inline std::chrono::steady_clock::time_point t0 = std::chrono::steady_clock::now();

   inline double elapsed()
   {
      return std::chrono::duration< double >( std::chrono::steady_clock::now() - t0 ).count();
   }

   inline void parse_args( int argc, char** argv )
   {
      if( argc >= 3 && std::string( argv[ 1 ] ) == "case" ) {
         args.replay = true;
         args.the_case = argv[ 2 ];
         if( argc >= 4 ) args.tier = argv[ 3 ];
         return;
      }
      if( argc >= 2 ) args.tier = argv[ 1 ];
      if( argc >= 4 ) {
         args.shard = atoi( argv[ 2 ] );
         args.nshards = atoi( argv[ 3 ] );
      }
      if( argc >= 5 ) args.deadline_s = atof( argv[ 4 ] );
   }

   inline std::string jesc( const std::string& s )
   {
      std::string o;
      for( unsigned char c : s ) {
         if( c == '"' || c == '\\' ) {
            o += '\\';
            o += char( c );
         }
         else if( c < 0x20 || c >= 0x7f ) {
            char b[ 8 ];
            snprintf( b, sizeof b, "\\u%04x", c );
            o += b;
         }
         else
            o += char( c );
      }
      return o;
   }

   inline std::string hex( const std::string& s )
   {
      static const char* d = "0123456789abcdef";
      std::string o;
      for( unsigned char c : s ) {
         o += d[ c >> 4 ];
         o += d[ c & 15 ];
      }
      return o;
   }

   inline std::string unhex( const std::string& s )
   {
      std::string o;
      auto v = []( char c ) { return c <= '9' ? c - '0' : ( c | 32 ) - 'a' + 10; };
      for( size_t i = 0; i + 1 < s.size(); i += 2 ) o += char( v( s[ i ] ) * 16 + v( s[ i + 1 ] ) );
      return o;
   }

   // printable rendering of a byte string for samples
   inline std::string show( const std::string& s )
   {
      std::string o;
      for( unsigned char c : s ) {
         if( c == '\n' )
            o += "\\n";
         else if( c == '\r' )
            o += "\\r";
         else if( c >= 0x20 && c < 0x7f && c != '\\' )
            o += char( c );
         else {
            char b[ 8 ];
            snprintf( b, sizeof b, "\\x%02x", c );
            o += b;
         }
      }
      return o;
   }

   inline uint64_t fnv( const void* p, size_t n, uint64_t h = 1469598103934665603ull )
   {
      const unsigned char* c = static_cast< const unsigned char* >( p );
      for( size_t i = 0; i < n; ++i ) {
         h ^= c[ i ];
         h *= 1099511628211ull;
      }
      return h;
   }
   inline uint64_t mix( uint64_t h, uint64_t v )
   {
      return fnv( &v, sizeof v, h );
   }
   inline uint64_t hstr( const std::string& s, uint64_t h = 1469598103934665603ull )
   {
      return fnv( s.data(), s.size(), h );
   }

   struct Stats
   {
      long evaluations = 0;  // complete executions
      long states = 0;       // exploration tree nodes visited (programs, inputs, choice nodes)
      long transitions = 0;  // exploration tree edges taken
      long violations = 0;
      bool exhaustive = true;
      std::map< std::string, long > counters;
      std::map< std::string, long > viol_by_sig;
      std::vector< std::string > samples;  // json values
      std::unordered_set< uint64_t > distinct;  // distinct non-trivial outcome signatures
      std::string note;
   };
   inline Stats st;

   inline void count( const char* k, long n = 1 )
   {
      st.counters[ k ] += n;
   }

   inline void nontrivial( uint64_t h )
   {
      st.distinct.insert( h );
   }

   inline void sample( const std::string& json, size_t cap = 6 )
   {
      if( st.samples.size() < cap ) st.samples.push_back( json );
   }

   // sig: short, stable identification of the failing call site / minimal shape (matched against known_findings.json)
   // detail: json object text (without braces) describing expected vs observed
   // the_case: string accepted by `bin case <string>`
   inline void violation( const std::string& sig, const std::string& detail, const std::string& the_case, long cap = 3 )
   {
      ++st.violations;
      long& n = st.viol_by_sig[ sig ];
      if( n++ < cap ) {
         printf( "V\t%s\t{%s%s\"case\":\"%s\"}\n", sig.c_str(), detail.c_str(), detail.empty() ? "" : ",", jesc( the_case ).c_str() );
         fflush( stdout );
      }
   }

   inline bool out_of_time()
   {
      if( elapsed() > args.deadline_s ) {
         st.exhaustive = false;
         return true;
      }
      return false;
   }

   inline void finish()
   {
      std::string s = "{";
      auto kv = [ & ]( const char* k, long v ) {
         s += "\"";
         s += k;
         s += "\":" + std::to_string( v ) + ",";
      };
      kv( "evaluations", st.evaluations );
      kv( "states", st.states );
      kv( "transitions", st.transitions );
      kv( "violations", st.violations );
      kv( "distinct_nontrivial", long( st.distinct.size() ) );
      s += "\"exhaustive\":";
      s += st.exhaustive ? "true" : "false";
      s += ",\"wall_s\":" + std::to_string( elapsed() );
      s += ",\"counters\":{";
      bool f = true;
      for( auto& c : st.counters ) {
         if( !f ) s += ",";
         f = false;
         s += "\"" + jesc( c.first ) + "\":" + std::to_string( c.second );
      }
      s += "},\"viol_by_sig\":{";
      f = true;
      for( auto& c : st.viol_by_sig ) {
         if( !f ) s += ",";
         f = false;
         s += "\"" + jesc( c.first ) + "\":" + std::to_string( c.second );
      }
      s += "},\"samples\":[";
      f = true;
      for( auto& c : st.samples ) {
         if( !f ) s += ",";
         f = false;
         s += c;
      }
      s += "],\"note\":\"" + jesc( st.note ) + "\"}";
      printf( "STAT\t%s\n", s.c_str() );
      fflush( stdout );
   }

   // std::terminate inside a run = an exception could not reach the caller of parse() (e.g. thrown through a function that
   // is wrongly noexcept).  Units that set term_site / term_case before each execution get a proper violation record instead
   // of a dead shard.
   inline std::string term_prop, term_site, term_case;
   [[noreturn]] inline void on_terminate_generic()
   {
      violation( term_prop + "|std::terminate during the run: an exception could not reach the caller of parse()|" + term_site, "", term_case );
      st.exhaustive = false;
      st.note = "aborted by std::terminate inside the library; remaining executions of this shard not explored";
      finish();
      _exit( 0 );
   }
   inline void guard_terminate( const char* prop )
   {
      term_prop = prop;
      std::set_terminate( on_terminate_generic );
   }

   // split helper for case strings
   inline std::vector< std::string > split( const std::string& s, char sep )
   {
      std::vector< std::string > r;
      std::string cur;
      for( char c : s ) {
         if( c == sep ) {
            r.push_back( cur );
            cur.clear();
         }
         else
            cur += c;
      }
      r.push_back( cur );
      return r;
   }

}  // namespace vf
