// T engine: table-dispatched grammars over the *real* PEGTL rule templates, hole leaves,
// stateless DFS explorer, monitors (control / actions / states).  See DESIGN.md §2.1-2.5.
//
// Before including, a TU may define
//    VERIF_K        number of named rules node<0..K-1>          (default 4)
//    VERIF_GROUPS   bit mask of operator groups to instantiate  (default G_CORE)
#pragma once
#include <cstddef>

#include "hooks.hpp"

#include <tao/pegtl.hpp>
#include <tao/pegtl/contrib/remove_first_state.hpp>
#include <tao/pegtl/contrib/control_action.hpp>
#include <tao/pegtl/contrib/uint8.hpp>
#include <tao/pegtl/must_if.hpp>
#include <tao/pegtl/contrib/check_bytes.hpp>
#include <tao/pegtl/contrib/if_then.hpp>
#include <tao/pegtl/contrib/input_with_depth.hpp>
#include <tao/pegtl/contrib/limit_bytes.hpp>
#include <tao/pegtl/contrib/limit_depth.hpp>
#include <tao/pegtl/contrib/integer.hpp>
#include <tao/pegtl/contrib/predicates.hpp>
#include <tao/pegtl/contrib/raw_string.hpp>
#include <tao/pegtl/contrib/rep_one_min_max.hpp>
#include <tao/pegtl/contrib/rep_string.hpp>
#include <tao/pegtl/contrib/separated_seq.hpp>

#include <array>
#include <cstdint>
#include <map>
#include <stdexcept>
#include <string>
#include <vector>

#include "common.hpp"

namespace p = tao::pegtl;
namespace pi = tao::pegtl::internal;

#ifndef VERIF_K
#define VERIF_K 4
#endif

namespace T
{
   constexpr unsigned K = VERIF_K;

   // ------------------------------------------------------------------ operator groups
   enum : unsigned long
   {
      G_CORE = 1,      // classical PEG operators and atoms (C01)
      G_CONV = 2,      // convenience rules with documented expansions (C09)
      G_REP = 4,       // numeric repetition families
      G_EXC = 8,       // must family, raise, try_catch_* (C05)
      G_ACT = 16,      // enable/disable/action<>/apply/apply0/if_apply (C04)
      G_STATE = 32,    // state<> / control<> (C13)
      G_ATOM2 = 64,    // further byte-level atoms
      G_CORE3 = 128,   // three-argument seq/sor and two-argument star/plus/opt/at/not_at
      G_CONV3 = 256,   // three-argument convenience rules
      G_HOLE = 512,
      G_POS = 1024,    // newline-capable atoms for the position oracle (C06)
      G_BOL = 2048,    // bol needs in.column(), which lazy inputs do not have
      G_ATOM3 = 4096,  // ascii convenience atoms (keyword identifier shebang two three forty_two ranges rep_string rep_one_min_max)
      G_CONTRIB = 8192, // contrib: integer rules, raw_string, predicates, separated_seq, if_then
      G_REMATCH = 16384, // rematch / minus construct a plain memory_input for the second phase
      G_MUST = 32768,   // must<> alone (also part of G_CONV)
      G_FILL = 65536,   // filler leaves for ill-formed grammar families (C11)
      G_META = 131072,  // action<> / control<> wrappers, raw_string with content rule
      G_PRED = 262144,  // contrib predicates (also part of G_CONTRIB)
      G_RAW = 524288,   // raw_string alone (also part of G_CONTRIB)
      G_POS2 = 1048576  // one rule per way a class rule decides between bump() and bump_in_this_line() (C06)
   };
#ifndef VERIF_GROUPS
#define VERIF_GROUPS ( T::G_CORE | T::G_HOLE )
#endif

   // ------------------------------------------------------------------ explorer (DESIGN §2.2)
   struct Explorer
   {
      std::vector< int > prefix, choices, arities;
      size_t idx = 0;
      int bound = 1 << 30;  // deviation bound for bounded choices
      int dev = 0;
      long nodes = 0, edges = 0;  // exploration-tree statistics (new nodes only)

      void begin( const std::vector< int >& pre )
      {
         prefix = pre;
         choices.clear();
         arities.clear();
         idx = 0;
         dev = 0;
      }
      // bounded: option 0 is the default environment answer, others count as deviations
      int choose( int n, bool bounded = false )
      {
         if( bounded && dev >= bound ) n = 1;
         int c = 0;
         if( idx < prefix.size() ) {
            c = prefix[ idx ];
            if( c >= n ) {
               fprintf( stderr, "FATAL: replay divergence at choice %zu (%d >= %d)\n", idx, c, n );
               abort();
            }
         }
         else {
            ++nodes;
         }
         if( bounded && c != 0 ) ++dev;
         choices.push_back( c );
         arities.push_back( n );
         ++idx;
         return c;
      }
      bool next( std::vector< int >& out )
      {
         int i = int( choices.size() ) - 1;
         while( i >= 0 && choices[ i ] + 1 >= arities[ i ] ) --i;
         if( i < 0 ) return false;
         out.assign( choices.begin(), choices.begin() + i );
         out.push_back( choices[ i ] + 1 );
         ++edges;
         return true;
      }
      std::string str() const
      {
         std::string s;
         for( size_t i = 0; i < choices.size(); ++i ) {
            if( i ) s += '.';
            s += std::to_string( choices[ i ] );
         }
         return s;
      }
      static std::vector< int > parse( const std::string& s )
      {
         std::vector< int > r;
         if( s.empty() ) return r;
         for( auto& x : vf::split( s, '.' ) ) r.push_back( atoi( x.c_str() ) );
         return r;
      }
   };
   inline Explorer X;

   // ------------------------------------------------------------------ environment answers (memoised)
   enum Ans : int
   {
      A_FAIL = 0,
      A_PE = 1,    // throws tao::pegtl::parse_error
      A_STD = 2,   // throws std::logic_error derived HoleStd
      A_X = 3,     // throws HoleX (not derived from std::exception)
      A_SUCC0 = 4  // A_SUCC0 + k : succeeds consuming k bytes
   };
   struct HoleX
   {
      int node;
   };
   struct HoleStd : std::logic_error
   {
      int node;
      explicit HoleStd( int n )
         : std::logic_error( "HoleStd" ), node( n )
      {}
   };
   struct ActX
   {
      int node;
   };
   struct Fuel
   {};

   struct Memo
   {
      std::map< std::array< int, 4 >, int > m;
      void clear() { m.clear(); }
      bool has( int kind, int a, int b, int c ) const { return m.count( { kind, a, b, c } ) != 0; }
      int get( int kind, int a, int b, int c ) const
      {
         auto it = m.find( { kind, a, b, c } );
         return it == m.end() ? -1 : it->second;
      }
      void put( int kind, int a, int b, int c, int v ) { m[ { kind, a, b, c } ] = v; }
   };
   inline Memo memo;
   enum
   {
      MK_HOLE = 0,
      MK_RESIDUE = 1,
      MK_ACT = 2
   };

   inline bool hole_may_throw = false;  // include A_PE/A_STD/A_X among hole answers
   inline bool hole_bounded = false;    // count non-failing answers as deviations

   // option order: fail, succ 0..n, then (optionally) the three throws
   inline int hole_answer( int I, int pos, int end )
   {
      int v = memo.get( MK_HOLE, I, pos, end );
      if( v >= 0 ) return v;
      const int nsucc = end - pos + 1;
      const int n = 1 + nsucc + ( hole_may_throw ? 3 : 0 );
      const int c = X.choose( n, hole_bounded );
      if( c == 0 )
         v = A_FAIL;
      else if( c <= nsucc )
         v = A_SUCC0 + ( c - 1 );
      else
         v = A_PE + ( c - nsucc - 1 );
      memo.put( MK_HOLE, I, pos, end, v );
      return v;
   }
   inline int hole_residue( int I, int pos, int end )
   {
      int v = memo.get( MK_RESIDUE, I, pos, end );
      if( v >= 0 ) return v;
      v = X.choose( end - pos + 1 );
      memo.put( MK_RESIDUE, I, pos, end, v );
      return v;
   }
   // action decisions: 0 accept, 1 veto (bool actions only), 2 throw ActX; non-default answers are deviations
   inline bool act_may_veto = false, act_may_throw = false;
   inline int act_decision( int I, int b, int e, bool can_veto )
   {
      int v = memo.get( MK_ACT, I, b, e );
      if( v >= 0 ) return v;
      int opts[ 3 ], n = 0;
      opts[ n++ ] = 0;
      if( can_veto && act_may_veto ) opts[ n++ ] = 1;
      if( act_may_throw ) opts[ n++ ] = 2;
      v = ( n == 1 ) ? 0 : opts[ X.choose( n, true ) ];
      memo.put( MK_ACT, I, b, e, v );
      return v;
   }

   // ------------------------------------------------------------------ the program
   struct Entry
   {
      uint8_t op, a, b, c;
   };
   inline Entry tab[ K ];
   inline long fuel = 0;
   inline bool fuel_out = false;
   inline const char* g_begin = nullptr;  // first byte of the outermost input's data
   inline size_t g_ib = 0, g_il = 1, g_ic = 1;  // initial byte / line / column counters of the outermost input

   template< unsigned I >
   struct node;

   template< typename T >
   struct argt;
   template< typename T >
   struct argt< void( T ) >
   {
      using type = T;
   };

   // wrappers of exact arity around the public rule templates
   // clang-format off
   template< typename A > using w_star = p::star< A >;
   template< typename A > using w_plus = p::plus< A >;
   template< typename A > using w_opt = p::opt< A >;
   template< typename A > using w_at = p::at< A >;
   template< typename A > using w_not_at = p::not_at< A >;
   template< typename A > using w_seq1 = p::seq< A >;  // the naming idiom  struct item : seq< ab > {};
   template< typename A > using w_sor1 = p::sor< A >;
   template< typename A, typename B > using w_seq = p::seq< A, B >;
   template< typename A, typename B > using w_sor = p::sor< A, B >;
   template< typename A, typename B, typename C > using w_seq3 = p::seq< A, B, C >;
   template< typename A, typename B, typename C > using w_sor3 = p::sor< A, B, C >;
   template< typename A, typename B > using w_star2 = p::star< A, B >;
   template< typename A, typename B > using w_plus2 = p::plus< A, B >;
   template< typename A, typename B > using w_opt2 = p::opt< A, B >;
   template< typename A, typename B > using w_at2 = p::at< A, B >;
   template< typename A, typename B > using w_not_at2 = p::not_at< A, B >;
   // convenience
   template< typename A, typename B, typename C > using w_ite = p::if_then_else< A, B, C >;
   template< typename A, typename B > using w_if_must = p::if_must< A, B >;
   template< typename A, typename B > using w_opt_must = p::opt_must< A, B >;
   template< typename A, typename B, typename C > using w_if_must_else = p::if_must_else< A, B, C >;
   template< typename A, typename B, typename C > using w_if_must3 = p::if_must< A, B, C >;
   template< typename A, typename B, typename C > using w_opt_must3 = p::opt_must< A, B, C >;
   template< typename A > using w_must = p::must< A >;
   template< typename A, typename B > using w_must2 = p::must< A, B >;
   template< typename A, typename B > using w_star_must = p::star_must< A, B >;
   template< typename A, typename B, typename C > using w_star_must3 = p::star_must< A, B, C >;
   template< typename A, typename B > using w_list = p::list< A, B >;
   template< typename A, typename B, typename C > using w_list3 = p::list< A, B, C >;
   template< typename A, typename B > using w_list_must = p::list_must< A, B >;
   template< typename A, typename B, typename C > using w_list_must3 = p::list_must< A, B, C >;
   template< typename A, typename B > using w_list_tail = p::list_tail< A, B >;
   template< typename A, typename B, typename C > using w_list_tail3 = p::list_tail< A, B, C >;
   template< typename A, typename B > using w_minus = p::minus< A, B >;
   template< typename A, typename B > using w_rematch = p::rematch< A, B >;
   template< typename A, typename B, typename C > using w_rematch3 = p::rematch< A, B, C >;
   template< typename A, typename B > using w_pad = p::pad< A, B >;
   template< typename A, typename B, typename C > using w_pad3 = p::pad< A, B, C >;
   template< typename A, typename B > using w_pad_opt = p::pad_opt< A, B >;
   template< typename A > using w_partial1 = p::partial< A >;
   template< typename A, typename B > using w_partial = p::partial< A, B >;
   template< typename A, typename B, typename C > using w_partial3 = p::partial< A, B, C >;
   template< typename A > using w_star_partial1 = p::star_partial< A >;
   template< typename A, typename B > using w_star_partial = p::star_partial< A, B >;
   template< typename A, typename B, typename C > using w_star_partial3 = p::star_partial< A, B, C >;
   template< typename A > using w_strict1 = p::strict< A >;
   template< typename A, typename B > using w_strict = p::strict< A, B >;
   template< typename A, typename B, typename C > using w_strict3 = p::strict< A, B, C >;
   template< typename A > using w_star_strict1 = p::star_strict< A >;
   template< typename A, typename B > using w_star_strict = p::star_strict< A, B >;
   template< typename A, typename B, typename C > using w_star_strict3 = p::star_strict< A, B, C >;
   template< typename A > using w_until1 = p::until< A >;
   template< typename A, typename B > using w_until2 = p::until< A, B >;
   template< typename A, typename B, typename C > using w_until3 = p::until< A, B, C >;
   // numeric repetition
   template< typename A > using w_rep0 = p::rep< 0, A >;
   template< typename A > using w_rep_min0 = p::rep_min< 0, A >;
   template< typename A > using w_rep_max0 = p::rep_max< 0, A >;
   template< typename A > using w_rep_opt0 = p::rep_opt< 0, A >;
   template< typename A > using w_rep1 = p::rep< 1, A >;
   template< typename A > using w_rep_min1 = p::rep_min< 1, A >;
   template< typename A > using w_rep_max1 = p::rep_max< 1, A >;
   template< typename A > using w_rep_opt1 = p::rep_opt< 1, A >;
   template< typename A > using w_rep2 = p::rep< 2, A >;
   template< typename A > using w_rep_min2 = p::rep_min< 2, A >;
   template< typename A > using w_rep_max2 = p::rep_max< 2, A >;
   template< typename A > using w_rep_opt2 = p::rep_opt< 2, A >;
   template< typename A > using w_rep3 = p::rep< 3, A >;
   template< typename A > using w_rep_min3 = p::rep_min< 3, A >;
   template< typename A > using w_rep_max3 = p::rep_max< 3, A >;
   template< typename A > using w_rep_opt3 = p::rep_opt< 3, A >;
   template< typename A > using w_rep4 = p::rep< 4, A >;
   template< typename A > using w_rep_min4 = p::rep_min< 4, A >;
   template< typename A > using w_rep_max4 = p::rep_max< 4, A >;
   template< typename A > using w_rep_opt4 = p::rep_opt< 4, A >;
   template< typename A, typename B > using w_rep2_2 = p::rep< 2, A, B >;
   template< typename A, typename B > using w_rep_min2_2 = p::rep_min< 2, A, B >;
   template< typename A, typename B > using w_rep_min1_2 = p::rep_min< 1, A, B >;
   template< typename A, typename B > using w_rep_min0_2 = p::rep_min< 0, A, B >;
   template< typename A, typename B > using w_rep_opt2_2 = p::rep_opt< 2, A, B >;
   template< typename A, typename B > using w_rmm12_2 = p::rep_min_max< 1, 2, A, B >;
   template< typename A > using w_rmm00 = p::rep_min_max< 0, 0, A >;
   template< typename A > using w_rmm01 = p::rep_min_max< 0, 1, A >;
   template< typename A > using w_rmm02 = p::rep_min_max< 0, 2, A >;
   template< typename A > using w_rmm03 = p::rep_min_max< 0, 3, A >;
   template< typename A > using w_rmm04 = p::rep_min_max< 0, 4, A >;
   template< typename A > using w_rmm11 = p::rep_min_max< 1, 1, A >;
   template< typename A > using w_rmm12 = p::rep_min_max< 1, 2, A >;
   template< typename A > using w_rmm13 = p::rep_min_max< 1, 3, A >;
   template< typename A > using w_rmm14 = p::rep_min_max< 1, 4, A >;
   template< typename A > using w_rmm22 = p::rep_min_max< 2, 2, A >;
   template< typename A > using w_rmm23 = p::rep_min_max< 2, 3, A >;
   template< typename A > using w_rmm24 = p::rep_min_max< 2, 4, A >;
   template< typename A > using w_rmm33 = p::rep_min_max< 3, 3, A >;
   template< typename A > using w_rmm34 = p::rep_min_max< 3, 4, A >;
   template< typename A > using w_rmm44 = p::rep_min_max< 4, 4, A >;
   // exceptions
   template< typename A > using w_raise = p::raise< A >;
   template< typename A > using w_tc_rf = p::try_catch_return_false< A >;
   template< typename A > using w_tc_any_rf = p::try_catch_any_return_false< A >;
   template< typename A > using w_tc_std_rf = p::try_catch_std_return_false< A >;
   template< typename A > using w_tc_type_rf = p::try_catch_type_return_false< HoleX, A >;
   template< typename A > using w_tc_rn = p::try_catch_raise_nested< A >;
   template< typename A > using w_tc_any_rn = p::try_catch_any_raise_nested< A >;
   template< typename A > using w_tc_std_rn = p::try_catch_std_raise_nested< A >;
   template< typename A > using w_tc_type_rn = p::try_catch_type_raise_nested< HoleX, A >;
   template< typename A, typename B > using w_tc_rf2 = p::try_catch_return_false< A, B >;
   // action control
   // star< sor< one< c >, R > >: an anonymous rule whose printed name contains a character that is special in type printouts
   template< typename A > using w_star_sorx_semi = p::star< p::sor< p::one< ';' >, A > >;
   template< typename A > using w_star_sorx_rbr = p::star< p::sor< p::one< ']' >, A > >;
   template< typename A > using w_star_sorx_eq = p::star< p::sor< p::one< '=' >, A > >;
   template< typename A > using w_star_sorx_comma = p::star< p::sor< p::one< ',' >, A > >;
   template< typename A > using w_star_sorx_gt = p::star< p::sor< p::one< '>' >, A > >;
   template< typename A > using w_star_sorx_quote = p::star< p::sor< p::one< '\'' >, A > >;
   template< typename A > using w_enable = p::enable< A >;
   template< typename A > using w_disable = p::disable< A >;
   struct LogState;
   template< typename A > using w_state = p::state< LogState, A >;
   struct LogStateD;
   template< typename A > using w_state_d = p::state< LogStateD, A >;  // a state that is only default constructible
   // action rules (apply / apply0 / if_apply): the action is a plain struct, its decision an explorer choice
   struct rule_action;
   struct rule_action0;
   template< typename A > using w_if_apply = p::if_apply< A, rule_action >;
   // action< NewAction, R > and control< NewControl, R >: switch the family / control for the sub-tree only
   template< typename Rule > struct act_odd;
   template< typename Rule > struct mon2;
   template< typename A > using w_action_sw = p::action< act_odd, A >;
   template< typename A > using w_control_sw = p::control< mon2, A >;
   template< typename Rule > struct fam_alt;
   template< typename A > using w_action_famalt = p::action< fam_alt, A >;  // the action<> rule switching to the alternative attachment family
   template< typename A > using w_action_alt = p::action< p::nothing, A >;
   template< typename A > using w_control_alt = p::control< p::normal, A >;
   template< typename A > using w_raw1 = p::raw_string< '[', '=', ']', A >;
   // a user-defined rule with its own analyze traits (analyze_any_traits< R >): R followed by a mandatory ';'
   template< typename R >
   struct custom_any
   {
      using rule_t = custom_any;
      using subs_t = p::type_list< R >;
      template< p::apply_mode A, p::rewind_mode M, template< typename... > class Action, template< typename... > class Control, typename In, typename... St >
      [[nodiscard]] static bool match( In& in, St&&... st )
      {
         return p::seq< R, p::one< ';' > >::template match< A, M, Action, Control >( in, st... );
      }
   };
   template< typename A > using w_custom_any = custom_any< A >;
   // clang-format on

   struct raise_msg : p::raise_message< 'r', 'm', 's', 'g' >
   {};
   // clang-format off
   template< typename A, typename B, typename C > using w_separated_seq = p::separated_seq< A, B, C >;
   template< typename A, typename B, typename C > using w_if_then_else_then = typename p::if_then< A, B >::template else_then< C >;
   template< typename A, typename B > using w_if_then = p::if_then< A, B >;
   template< typename A, typename B, typename C > using w_if_then_chain = typename p::if_then< A, B >::template else_if_then< B, C >::template else_if_then< C, A >;
   using raw_t = p::raw_string< '[', '=', ']' >;
   // clang-format on

   // a *terminal* hole: a rule with the plain match( in ) signature whose answer is explored like a hole's (fail / succeed
   // consuming k / throw).  It is reached through Control< thole< I > >::match, i.e. with the full hook protocol; a terminal
   // gets no rewind mode, so on failure it consumes nothing.
   template< unsigned I >
   struct thole
   {
      using rule_t = thole;
      using subs_t = p::empty_list;
      template< typename ParseInput >
      [[nodiscard]] static bool match( ParseInput& in )
      {
         const int pos = int( in.current() - g_begin ), end = int( in.end() - g_begin );
         const int a = hole_answer( int( I ), pos, end );
         if( a >= A_SUCC0 ) {
            in.bump( a - A_SUCC0 );
            return true;
         }
         if( a == A_PE ) throw p::parse_error( "hole", in );
         if( a == A_STD ) throw HoleStd( int( I ) );
         if( a == A_X ) throw HoleX{ int( I ) };
         return false;
      }
   };

   // X-macro list:  A0( NAME, group, rule type )   U1/B2/T3( NAME, group, wrapper template )
#define VERIF_OPLIST( A0, U1, B2, T3 ) \
   A0( ANY, G_CORE, ( p::any ) ) \
   A0( ONE_A, G_CORE, ( p::one< 'a' > ) ) \
   A0( NOT_ONE_A, G_CORE, ( p::not_one< 'a' > ) ) \
   A0( RANGE_AB, G_CORE, ( p::range< 'a', 'b' > ) ) \
   A0( STRING_AB, G_CORE, ( p::string< 'a', 'b' > ) ) \
   A0( EOF_, G_CORE, ( p::eof ) ) \
   A0( SUCCESS, G_CORE, ( p::success ) ) \
   A0( FAILURE, G_CORE, ( p::failure ) ) \
   A0( ONE_B, G_ATOM2, ( p::one< 'b' > ) ) \
   A0( EOL, G_ATOM2, ( p::eol ) ) \
   A0( EOLF, G_ATOM2, ( p::eolf ) ) \
   A0( BOF, G_ATOM2, ( p::bof ) ) \
   A0( BOL, G_BOL, ( p::bol ) ) \
   A0( BYTES2, G_ATOM2, ( p::bytes< 2 > ) ) \
   A0( EVERYTHING, G_ATOM2, ( p::everything ) ) \
   A0( ISTRING_AB, G_ATOM2, ( p::istring< 'a', 'b' > ) ) \
   A0( RAISE_MSG, G_EXC, ( raise_msg ) ) \
   A0( TC_RN_MSG, G_EXC, ( p::try_catch_raise_nested< raise_msg > ) ) \
   A0( THOLE, G_EXC, ( p::seq< thole< I > > ) ) \
   A0( DISCARD, G_ATOM2, ( p::discard ) ) \
   A0( REQUIRE2, G_ATOM2, ( p::require< 2 > ) ) \
   A0( ONE_LF, G_POS, ( p::one< '\n' > ) ) \
   A0( ONE_CR, G_POS, ( p::one< '\r' > ) ) \
   A0( STRING_CRLF, G_POS, ( p::string< '\r', '\n' > ) ) \
   A0( SEVEN, G_POS, ( p::seven ) ) \
   A0( NOT_ONE_LF, G_POS, ( p::not_one< '\n' > ) ) \
   A0( UTF8_ANY, G_POS, ( p::utf8::any ) ) \
   A0( ONE_A_LF_CR, G_POS2, ( p::one< 'a', '\n', '\r' > ) ) \
   A0( ONE_LF_CR_A, G_POS2, ( p::one< '\n', '\r', 'a' > ) ) \
   A0( RANGE_TAB_CR, G_POS2, ( p::range< '\t', '\r' > ) ) \
   A0( NOT_RANGE_AB, G_POS2, ( p::not_range< 'a', 'b' > ) ) \
   A0( RANGES_EOL_LAST, G_POS2, ( p::ranges< 'a', 'b', '\t', '\r' > ) ) \
   A0( RANGES_EOL_FIRST, G_POS2, ( p::ranges< '\t', '\r', 'a', 'b' > ) ) \
   A0( RANGES_ODD_LF, G_POS2, ( p::ranges< 'a', 'b', '\n' > ) ) \
   A0( RANGES_ODD_CR, G_POS2, ( p::ranges< 'a', 'b', '\r' > ) ) \
   A0( STRING_A_LF, G_POS2, ( p::string< 'a', '\n' > ) ) \
   A0( STRING_CR_A, G_POS2, ( p::string< '\r', 'a' > ) ) \
   A0( ISTRING_A_LF, G_POS2, ( p::istring< 'a', '\n' > ) ) \
   A0( ISTRING_CR_A, G_POS2, ( p::istring< '\r', 'a' > ) ) \
   A0( U8_ONE_A_LF_CR, G_POS2, ( p::utf8::one< 'a', '\n', '\r' > ) ) \
   A0( U8_NOT_ONE_A, G_POS2, ( p::utf8::not_one< 'a' > ) ) \
   A0( U8_RANGE_TAB_CR, G_POS2, ( p::utf8::range< '\t', '\r' > ) ) \
   A0( U8_NOT_RANGE_AB, G_POS2, ( p::utf8::not_range< 'a', 'b' > ) ) \
   A0( U8_RANGES_EOL_LAST, G_POS2, ( p::utf8::ranges< 'a', 'b', '\t', '\r' > ) ) \
   A0( UINT8_ANY, G_POS2, ( p::uint8::any ) ) \
   A0( UINT8_ONE_LF_CR, G_POS2, ( p::uint8::one< 10, 13 > ) ) \
   A0( UINT8_MASK_ONE, G_POS2, ( p::uint8::mask_one< 0xF0, 0x00 > ) ) \
   A0( UINT8_MASK_NOT_ONE, G_POS2, ( p::uint8::mask_not_one< 0xF0, 0x60 > ) ) \
   A0( UINT8_MASK_RANGE, G_POS2, ( p::uint8::mask_range< 0x0F, 0x09, 0x0D > ) ) \
   A0( UINT8_MASK_NOT_RANGE, G_POS2, ( p::uint8::mask_not_range< 0xF0, 0x60, 0x70 > ) ) \
   A0( UINT8_MASK_RANGES, G_POS2, ( p::uint8::mask_ranges< 0x7F, 0x61, 0x62, 0x09, 0x0D > ) ) \
   A0( UINT8_MASK_RANGE2, G_POS2, ( p::uint8::mask_range< 0xF0, 0x00, 0x05 > ) ) \
   A0( UINT8_MASK_RANGES2, G_POS2, ( p::uint8::mask_ranges< 0xF0, 0x00, 0x05, 0x60 > ) ) \
   A0( UINT8_MASK_NOT_ONE2, G_POS2, ( p::uint8::mask_not_one< 0xF0, 0x0A, 0x0D > ) ) \
   A0( KEYWORD_AB, G_ATOM3, ( p::keyword< 'a', 'b' > ) ) \
   A0( IDENTIFIER, G_ATOM3, ( p::identifier ) ) \
   A0( SHEBANG, G_ATOM3, ( p::shebang ) ) \
   A0( TWO_A, G_ATOM3, ( p::two< 'a' > ) ) \
   A0( THREE_A, G_ATOM3, ( p::three< 'a' > ) ) \
   A0( FORTY_TWO_A, G_ATOM3, ( p::forty_two< 'a' > ) ) \
   A0( RANGES_ACX, G_ATOM3, ( p::ranges< 'a', 'c', 'x' > ) ) \
   A0( REP_STRING2_AB, G_ATOM3, ( p::rep_string< 2, 'a', 'b' > ) ) \
   A0( ROMM12_A, G_ATOM3, ( p::rep_one_min_max< 1, 2, 'a' > ) ) \
   A0( ROMM02_A, G_ATOM3, ( p::rep_one_min_max< 0, 2, 'a' > ) ) \
   A0( ROMM22_A, G_ATOM3, ( p::rep_one_min_max< 2, 2, 'a' > ) ) \
   A0( ROMM00_A, G_ATOM3, ( p::rep_one_min_max< 0, 0, 'a' > ) ) \
   A0( INT_U, G_CONTRIB, ( p::unsigned_rule ) ) \
   A0( INT_S, G_CONTRIB, ( p::signed_rule ) ) \
   A0( INT_MAX8, G_CONTRIB, ( p::maximum_rule< std::uint8_t > ) ) \
   A0( INT_MAX300, G_CONTRIB, ( p::maximum_rule< std::uint16_t, 300 > ) ) \
   A0( INT_MAX7, G_CONTRIB, ( p::maximum_rule< std::uint8_t, 7 > ) ) \
   A0( RAW, ( G_CONTRIB | G_RAW ), ( raw_t ) ) \
   A0( PRED_AND, ( G_CONTRIB | G_PRED ), ( p::predicates_and< p::range< 'a', 'c' >, p::not_one< 'b' > > ) ) \
   A0( PRED_NOT, ( G_CONTRIB | G_PRED ), ( p::predicate_not< p::one< 'a' > > ) ) \
   A0( PRED_OR, ( G_CONTRIB | G_PRED ), ( p::predicates_or< p::one< 'a' >, p::one< 'c' > > ) ) \
   T3( SEPARATED_SEQ, G_CONTRIB, w_separated_seq ) \
   T3( IF_THEN_ELSE_THEN, G_CONTRIB, w_if_then_else_then ) \
   B2( IF_THEN, G_CONTRIB, w_if_then ) \
   T3( IF_THEN_CHAIN, G_CONTRIB, w_if_then_chain ) \
   A0( OPT_ONE_A, G_FILL, ( p::opt< p::one< 'a' > > ) ) \
   A0( AT_ONE_A, G_FILL, ( p::at< p::one< 'a' > > ) ) \
   A0( NOT_AT_ONE_A, G_FILL, ( p::not_at< p::one< 'a' > > ) ) \
   A0( STAR_NA_SEMI, G_FILL, ( p::star< p::sor< p::one< ';' >, p::one< 'a' > > > ) ) \
   A0( STAR_NA_RBR, G_FILL, ( p::star< p::sor< p::one< ']' >, p::one< 'a' > > > ) ) \
   A0( STAR_NA_EQ, G_FILL, ( p::star< p::sor< p::one< '=' >, p::one< 'a' > > > ) ) \
   A0( STAR_NA_COMMA, G_FILL, ( p::star< p::sor< p::one< ',' >, p::one< 'a' > > > ) ) \
   A0( STAR_NA_GT, G_FILL, ( p::star< p::sor< p::one< '>' >, p::one< 'a' > > > ) ) \
   A0( STAR_NA_QUOTE, G_FILL, ( p::star< p::sor< p::one< '\'' >, p::one< 'a' > > > ) ) \
   U1( ACTION_ALT, G_META, w_action_alt ) \
   U1( CONTROL_ALT, G_META, w_control_alt ) \
   U1( RAW1, G_META, w_raw1 ) \
   U1( CUSTOM_ANY, G_META, w_custom_any ) \
   U1( STAR, G_CORE, w_star ) \
   U1( PLUS, G_CORE, w_plus ) \
   U1( OPT, G_CORE, w_opt ) \
   U1( AT, G_CORE, w_at ) \
   U1( NOT_AT, G_CORE, w_not_at ) \
   B2( SEQ, G_CORE, w_seq ) \
   B2( SOR, G_CORE, w_sor ) \
   U1( SEQ1, G_CORE3, w_seq1 ) \
   U1( SOR1, G_CORE3, w_sor1 ) \
   T3( SEQ3, G_CORE3, w_seq3 ) \
   T3( SOR3, G_CORE3, w_sor3 ) \
   B2( STAR2, G_CORE3, w_star2 ) \
   B2( PLUS2, G_CORE3, w_plus2 ) \
   B2( OPT2, G_CORE3, w_opt2 ) \
   B2( AT2, G_CORE3, w_at2 ) \
   B2( NOT_AT2, G_CORE3, w_not_at2 ) \
   T3( IF_THEN_ELSE, G_CONV, w_ite ) \
   B2( IF_MUST, G_CONV, w_if_must ) \
   B2( OPT_MUST, G_CONV, w_opt_must ) \
   T3( IF_MUST_ELSE, G_CONV, w_if_must_else ) \
   T3( IF_MUST3, G_CONV3, w_if_must3 ) \
   T3( OPT_MUST3, G_CONV3, w_opt_must3 ) \
   U1( MUST, ( G_CONV | G_MUST ), w_must ) \
   B2( MUST2, G_CONV, w_must2 ) \
   B2( STAR_MUST, G_CONV, w_star_must ) \
   T3( STAR_MUST3, G_CONV3, w_star_must3 ) \
   B2( LIST, G_CONV, w_list ) \
   T3( LIST3, G_CONV3, w_list3 ) \
   B2( LIST_MUST, G_CONV, w_list_must ) \
   T3( LIST_MUST3, G_CONV3, w_list_must3 ) \
   B2( LIST_TAIL, G_CONV, w_list_tail ) \
   T3( LIST_TAIL3, G_CONV3, w_list_tail3 ) \
   B2( MINUS, G_REMATCH, w_minus ) \
   B2( REMATCH, G_REMATCH, w_rematch ) \
   T3( REMATCH3, G_REMATCH, w_rematch3 ) \
   B2( PAD, G_CONV, w_pad ) \
   T3( PAD3, G_CONV3, w_pad3 ) \
   B2( PAD_OPT, G_CONV, w_pad_opt ) \
   U1( PARTIAL1, G_CONV, w_partial1 ) \
   B2( PARTIAL, G_CONV, w_partial ) \
   T3( PARTIAL3, G_CONV3, w_partial3 ) \
   U1( STAR_PARTIAL1, G_CONV, w_star_partial1 ) \
   B2( STAR_PARTIAL, G_CONV, w_star_partial ) \
   T3( STAR_PARTIAL3, G_CONV3, w_star_partial3 ) \
   U1( STRICT1, G_CONV, w_strict1 ) \
   B2( STRICT, G_CONV, w_strict ) \
   T3( STRICT3, G_CONV3, w_strict3 ) \
   U1( STAR_STRICT1, G_CONV, w_star_strict1 ) \
   B2( STAR_STRICT, G_CONV, w_star_strict ) \
   T3( STAR_STRICT3, G_CONV3, w_star_strict3 ) \
   U1( UNTIL1, G_CONV, w_until1 ) \
   B2( UNTIL2, G_CONV, w_until2 ) \
   T3( UNTIL3, G_CONV3, w_until3 ) \
   U1( REP0, G_REP, w_rep0 ) \
   U1( REP1, G_REP, w_rep1 ) \
   U1( REP2, G_REP, w_rep2 ) \
   U1( REP3, G_REP, w_rep3 ) \
   U1( REP4, G_REP, w_rep4 ) \
   B2( REP2_2, G_REP, w_rep2_2 ) \
   U1( REP_MIN0, G_REP, w_rep_min0 ) \
   U1( REP_MIN1, G_REP, w_rep_min1 ) \
   U1( REP_MIN2, G_REP, w_rep_min2 ) \
   U1( REP_MIN3, G_REP, w_rep_min3 ) \
   U1( REP_MIN4, G_REP, w_rep_min4 ) \
   B2( REP_MIN2_2, G_REP, w_rep_min2_2 ) \
   B2( REP_MIN1_2, G_REP, w_rep_min1_2 ) \
   B2( REP_MIN0_2, G_REP, w_rep_min0_2 ) \
   U1( REP_MAX0, G_REP, w_rep_max0 ) \
   U1( REP_MAX1, G_REP, w_rep_max1 ) \
   U1( REP_MAX2, G_REP, w_rep_max2 ) \
   U1( REP_MAX3, G_REP, w_rep_max3 ) \
   U1( REP_MAX4, G_REP, w_rep_max4 ) \
   U1( REP_OPT1, G_REP, w_rep_opt1 ) \
   U1( REP_OPT2, G_REP, w_rep_opt2 ) \
   U1( REP_OPT3, G_REP, w_rep_opt3 ) \
   U1( REP_OPT4, G_REP, w_rep_opt4 ) \
   B2( REP_OPT2_2, G_REP, w_rep_opt2_2 ) \
   U1( RMM00, G_REP, w_rmm00 ) \
   U1( RMM01, G_REP, w_rmm01 ) \
   U1( RMM02, G_REP, w_rmm02 ) \
   U1( RMM03, G_REP, w_rmm03 ) \
   U1( RMM04, G_REP, w_rmm04 ) \
   U1( RMM11, G_REP, w_rmm11 ) \
   U1( RMM12, G_REP, w_rmm12 ) \
   U1( RMM13, G_REP, w_rmm13 ) \
   U1( RMM14, G_REP, w_rmm14 ) \
   U1( RMM22, G_REP, w_rmm22 ) \
   U1( RMM23, G_REP, w_rmm23 ) \
   U1( RMM24, G_REP, w_rmm24 ) \
   U1( RMM33, G_REP, w_rmm33 ) \
   U1( RMM34, G_REP, w_rmm34 ) \
   U1( RMM44, G_REP, w_rmm44 ) \
   B2( RMM12_2, G_REP, w_rmm12_2 ) \
   U1( RAISE_OF, G_EXC, w_raise ) \
   U1( TC_RF, G_EXC, w_tc_rf ) \
   U1( TC_ANY_RF, G_EXC, w_tc_any_rf ) \
   U1( TC_STD_RF, G_EXC, w_tc_std_rf ) \
   U1( TC_TYPE_RF, G_EXC, w_tc_type_rf ) \
   U1( TC_RN, G_EXC, w_tc_rn ) \
   U1( TC_ANY_RN, G_EXC, w_tc_any_rn ) \
   U1( TC_STD_RN, G_EXC, w_tc_std_rn ) \
   U1( TC_TYPE_RN, G_EXC, w_tc_type_rn ) \
   B2( TC_RF2, G_EXC, w_tc_rf2 ) \
   U1( ENABLE, G_ACT, w_enable ) \
   U1( DISABLE, G_ACT, w_disable ) \
   U1( IF_APPLY, G_ACT, w_if_apply ) \
   U1( ACTION_SW, G_ACT, w_action_sw ) \
   U1( CONTROL_SW, G_STATE, w_control_sw ) \
   U1( ACTION_FAMALT, G_STATE, w_action_famalt ) \
   A0( APPLY, G_ACT, ( p::apply< rule_action > ) ) \
   A0( APPLY0, G_ACT, ( p::apply0< rule_action0 > ) ) \
   U1( STATE, G_STATE, w_state ) \
   U1( STAR_SORX_SEMI, G_FILL, w_star_sorx_semi ) \
   U1( STAR_SORX_RBR, G_FILL, w_star_sorx_rbr ) \
   U1( STAR_SORX_EQ, G_FILL, w_star_sorx_eq ) \
   U1( STAR_SORX_COMMA, G_FILL, w_star_sorx_comma ) \
   U1( STAR_SORX_GT, G_FILL, w_star_sorx_gt ) \
   U1( STAR_SORX_QUOTE, G_FILL, w_star_sorx_quote ) \
   U1( STATE_D, G_STATE, w_state_d )

   enum Op : uint8_t
   {
      HOLE = 0,
#define A0( N, G, R ) N,
#define U1( N, G, W ) N,
#define B2( N, G, W ) N,
#define T3( N, G, W ) N,
      VERIF_OPLIST( A0, U1, B2, T3 )
#undef A0
#undef U1
#undef B2
#undef T3
         NOPS
   };
   struct OpInfo
   {
      const char* name;
      int arity;
      unsigned long group;
   };
   inline const OpInfo opinfo[] = {
      { "HOLE", 0, G_HOLE },
#define A0( N, G, R ) { #N, 0, G },
#define U1( N, G, W ) { #N, 1, G },
#define B2( N, G, W ) { #N, 2, G },
#define T3( N, G, W ) { #N, 3, G },
      VERIF_OPLIST( A0, U1, B2, T3 )
#undef A0
#undef U1
#undef B2
#undef T3
   };
   inline int op_by_name( const std::string& s )
   {
      for( int i = 0; i < NOPS; ++i )
         if( s == opinfo[ i ].name ) return i;
      fprintf( stderr, "FATAL: unknown op %s\n", s.c_str() );
      abort();
   }

   // ------------------------------------------------------------------ dispatch tables
#define VERIF_TP p::apply_mode A, p::rewind_mode M, template< typename... > class Action, template< typename... > class Control, typename In, typename... St
#define VERIF_TA A, M, Action, Control, In, St...

   // rules with the simple match( in ) signature (e.g. rep< 0, R > deriving from success) are reached the same way match() reaches them
   template< typename Rule, VERIF_TP >
   bool thunk( In& in, St&&... st )
   {
      return pi::match_no_control< Rule, A, M, Action, Control >( in, st... );
   }

   template< template< typename > class R, VERIF_TP >
   struct D1
   {
      using fn = bool ( * )( In&, St&&... );
      template< std::size_t... Is >
      static constexpr std::array< fn, K > mk( std::index_sequence< Is... > )
      {
         return { { &thunk< R< node< Is > >, A, M, Action, Control, In, St... >... } };
      }
      static bool call( unsigned a, In& in, St&&... st )
      {
         static constexpr auto t = mk( std::make_index_sequence< K >() );
         return t[ a ]( in, st... );
      }
   };
   template< template< typename, typename > class R, VERIF_TP >
   struct D2
   {
      using fn = bool ( * )( In&, St&&... );
      template< std::size_t... Is >
      static constexpr std::array< fn, K * K > mk( std::index_sequence< Is... > )
      {
         return { { &thunk< R< node< Is / K >, node< Is % K > >, A, M, Action, Control, In, St... >... } };
      }
      static bool call( unsigned a, unsigned b, In& in, St&&... st )
      {
         static constexpr auto t = mk( std::make_index_sequence< K * K >() );
         return t[ a * K + b ]( in, st... );
      }
   };
   template< template< typename, typename, typename > class R, VERIF_TP >
   struct D3
   {
      using fn = bool ( * )( In&, St&&... );
      template< std::size_t... Is >
      static constexpr std::array< fn, K * K * K > mk( std::index_sequence< Is... > )
      {
         return { { &thunk< R< node< Is / ( K * K ) >, node< ( Is / K ) % K >, node< Is % K > >, A, M, Action, Control, In, St... >... } };
      }
      static bool call( unsigned a, unsigned b, unsigned c, In& in, St&&... st )
      {
         static constexpr auto t = mk( std::make_index_sequence< K * K * K >() );
         return t[ ( a * K + b ) * K + c ]( in, st... );
      }
   };

   template< typename... >
   struct all_nodes;
   template< std::size_t... Is >
   struct all_nodes< std::index_sequence< Is... > >
   {
      using type = p::type_list< node< Is >... >;
   };

   constexpr unsigned long groups = VERIF_GROUPS;

   template< unsigned I >
   struct node
   {
      using rule_t = node;
      using subs_t = typename all_nodes< std::make_index_sequence< K > >::type;  // honest: a table rule may call any rule
      static constexpr unsigned id = I;

      template< VERIF_TP >
      [[nodiscard]] static bool match( In& in, St&&... st )
      {
         if( fuel_out || --fuel < 0 ) {
            fuel_out = true;  // sticky: try_catch_any may swallow the exception
            throw Fuel{};
         }
         const Entry e = tab[ I ];
         switch( e.op ) {
            case HOLE:
               if constexpr( ( groups & G_HOLE ) != 0 ) {
                  const int pos = int( in.current() - g_begin ), end = int( in.end() - g_begin );
                  const int a = hole_answer( I, pos, end );
                  if( a >= A_SUCC0 ) {
                     in.bump( a - A_SUCC0 );
                     return true;
                  }
                  if( a == A_PE ) throw p::parse_error( "hole", in );
                  if( a == A_STD ) throw HoleStd( int( I ) );
                  if( a == A_X ) throw HoleX{ int( I ) };
                  if constexpr( M == p::rewind_mode::optional ) {
                     in.bump( hole_residue( I, pos, end ) );  // legal: the caller promised not to care
                  }
                  return false;
               }
               break;
#define A0( N, G, R ) \
   case N: \
      if constexpr( ( groups & G ) != 0 ) return pi::match_no_control< typename argt< void R >::type, A, M, Action, Control >( in, st... ); \
      break;
#define U1( N, G, W ) \
   case N: \
      if constexpr( ( groups & G ) != 0 ) return D1< W, VERIF_TA >::call( e.a, in, st... ); \
      break;
#define B2( N, G, W ) \
   case N: \
      if constexpr( ( groups & G ) != 0 ) return D2< W, VERIF_TA >::call( e.a, e.b, in, st... ); \
      break;
#define T3( N, G, W ) \
   case N: \
      if constexpr( ( groups & G ) != 0 ) return D3< W, VERIF_TA >::call( e.a, e.b, e.c, in, st... ); \
      break;
               VERIF_OPLIST( A0, U1, B2, T3 )
#undef A0
#undef U1
#undef B2
#undef T3
         }
         fprintf( stderr, "FATAL: op %s not compiled into this unit\n", opinfo[ e.op ].name );
         abort();
      }
   };

   inline std::string show_tab( int n = K )
   {
      std::string s;
      for( int i = 0; i < n; ++i ) {
         const auto& o = opinfo[ tab[ i ].op ];
         if( i ) s += " ";
         s += "n" + std::to_string( i ) + "=" + o.name;
         if( o.arity >= 1 ) s += "(n" + std::to_string( tab[ i ].a );
         if( o.arity >= 2 ) s += ",n" + std::to_string( tab[ i ].b );
         if( o.arity >= 3 ) s += ",n" + std::to_string( tab[ i ].c );
         if( o.arity >= 1 ) s += ")";
      }
      return s;
   }
   // compact serialisation "OP.a.b.c;OP.a.b.c;..."
   inline std::string ser_tab( int n = K )
   {
      std::string s;
      for( int i = 0; i < n; ++i ) {
         if( i ) s += ";";
         s += std::string( opinfo[ tab[ i ].op ].name ) + "." + std::to_string( tab[ i ].a ) + "." + std::to_string( tab[ i ].b ) + "." + std::to_string( tab[ i ].c );
      }
      return s;
   }
   inline int deser_tab( const std::string& s )
   {
      auto rs = vf::split( s, ';' );
      for( unsigned i = 0; i < K; ++i ) tab[ i ] = { FAILURE, 0, 0, 0 };
      for( size_t i = 0; i < rs.size() && i < K; ++i ) {
         auto f = vf::split( rs[ i ], '.' );
         tab[ i ] = { uint8_t( op_by_name( f[ 0 ] ) ), uint8_t( atoi( f[ 1 ].c_str() ) ), uint8_t( atoi( f[ 2 ].c_str() ) ), uint8_t( atoi( f[ 3 ].c_str() ) ) };
      }
      return int( rs.size() );
   }

   // ------------------------------------------------------------------ canonical program enumeration
   // Rules are numbered in order of first mention when scanning rule 0, 1, 2, ... (every rule reachable
   // from node<0>, no two tables differ only by renaming).  The callback receives the number of rules.
   struct ProgEnum
   {
      std::vector< int > root, inner;  // opcodes allowed for rule 0 / for the other rules
      int maxn = 3;
      bool flat_inner = false;  // rules other than the root may only have leaf (arity 0) children
      long count = 0;

      bool child_ok( int i, int x, int cnt ) const
      {
         if( !flat_inner || i == 0 ) return true;
         if( x == i || x == 0 ) return false;
         if( x < i ) return opinfo[ tab[ x ].op ].arity == 0;
         (void)cnt;
         return true;  // defined later; checked when its operator is chosen
      }
      bool op_ok( int i, int op ) const
      {
         if( !flat_inner || i == 0 || opinfo[ op ].arity == 0 ) return true;
         for( int k = 1; k < i; ++k ) {  // referenced by an earlier non-root rule => must be a leaf
            const int ar = opinfo[ tab[ k ].op ].arity;
            if( ( ar >= 1 && tab[ k ].a == i ) || ( ar >= 2 && tab[ k ].b == i ) || ( ar >= 3 && tab[ k ].c == i ) ) return false;
         }
         return true;
      }
      template< typename F >
      void rec( int i, int cnt, F&& f )
      {
         if( i == cnt ) {
            ++count;
            f( cnt );
            return;
         }
         for( int op : ( i == 0 ? root : inner ) ) {
            if( !op_ok( i, op ) ) continue;
            const int ar = opinfo[ op ].arity;
            tab[ i ] = { uint8_t( op ), 0, 0, 0 };
            if( ar == 0 ) {
               rec( i + 1, cnt, f );
               continue;
            }
            for( int a = 0; a <= cnt && a < maxn; ++a ) {
               if( !child_ok( i, a, cnt ) ) continue;
               const int c1 = cnt + ( a == cnt );
               tab[ i ] = { uint8_t( op ), uint8_t( a ), 0, 0 };
               if( ar == 1 ) {
                  rec( i + 1, c1, f );
                  continue;
               }
               for( int b = 0; b <= c1 && b < maxn; ++b ) {
                  if( !child_ok( i, b, c1 ) ) continue;
                  const int c2 = c1 + ( b == c1 );
                  tab[ i ] = { uint8_t( op ), uint8_t( a ), uint8_t( b ), 0 };
                  if( ar == 2 ) {
                     rec( i + 1, c2, f );
                     continue;
                  }
                  for( int c = 0; c <= c2 && c < maxn; ++c ) {
                     if( !child_ok( i, c, c2 ) ) continue;
                     const int c3 = c2 + ( c == c2 );
                     tab[ i ] = { uint8_t( op ), uint8_t( a ), uint8_t( b ), uint8_t( c ) };
                     rec( i + 1, c3, f );
                  }
               }
            }
         }
      }
      template< typename F >
      void run( F&& f )
      {
         rec( 0, 1, f );
      }
   };

   // all strings over sigma with length <= L
   template< typename F >
   void for_inputs( const std::string& sigma, int L, F&& f )
   {
      std::string s;
      std::vector< int > idx;
      for( int len = 0; len <= L; ++len ) {
         idx.assign( len, 0 );
         for( ;; ) {
            s.resize( len );
            for( int i = 0; i < len; ++i ) s[ i ] = sigma[ idx[ i ] ];
            f( s );
            int k = len - 1;
            while( k >= 0 && ++idx[ k ] == int( sigma.size() ) ) idx[ k-- ] = 0;
            if( k < 0 ) break;
         }
      }
   }

   // ------------------------------------------------------------------ monitors (DESIGN §2.5)
   template< typename Rule >
   struct rid
   {
      static constexpr int v = -1;  // anonymous internal rule
      static constexpr int kind = 0;
   };
   enum
   {
      RK_OTHER = 0,
      RK_NODE = 1,
      RK_AT = 2,
      RK_NOT_AT = 3,
      RK_MUST = 4,
      RK_RAISE = 5,
      RK_DISABLE = 6,
      RK_ENABLE = 7
   };
   template< unsigned I >
   struct rid< node< I > >
   {
      static constexpr int v = int( I );
      static constexpr int kind = RK_NODE;
   };
   template< typename... R >
   struct rid< pi::at< R... > >
   {
      static constexpr int v = -2;
      static constexpr int kind = RK_AT;
   };
   template< typename... R >
   struct rid< pi::not_at< R... > >
   {
      static constexpr int v = -3;
      static constexpr int kind = RK_NOT_AT;
   };
   template< typename... R >
   struct rid< pi::must< R... > >
   {
      static constexpr int v = -4;
      static constexpr int kind = RK_MUST;
   };
   template< typename R >
   struct rid< pi::raise< R > >
   {
      static constexpr int v = -5;
      static constexpr int kind = RK_RAISE;
   };
   template<>
   struct rid< raise_msg >  // raise_message<>: a rule that raises by definition
   {
      static constexpr int v = -5;
      static constexpr int kind = RK_RAISE;
   };
   template< typename... R >
   struct rid< pi::disable< R... > >
   {
      static constexpr int v = -6;
      static constexpr int kind = RK_DISABLE;
   };
   template< typename... R >
   struct rid< pi::enable< R... > >
   {
      static constexpr int v = -7;
      static constexpr int kind = RK_ENABLE;
   };

   enum EvType : uint8_t
   {
      E_ENTER,
      E_EXIT_T,
      E_EXIT_F,
      E_EXIT_X,
      E_START,
      E_SUCCESS,
      E_FAILURE,
      E_UNWIND,
      E_RAISE,
      E_APPLY,
      E_APPLY0,
      E_ACT,  // an Action<node<I>>::apply/apply0 body ran
      E_FAIL_RAISE  // must_if: the failure hook of a rule with raise_on_failure is about to raise
   };
   struct Ev
   {
      uint8_t type;
      int16_t rule;  // rid::v
      uint8_t kind;  // rid::kind
      uint8_t enabled;  // Control<Rule>::enable
      uint8_t A, M;
      int32_t pos;  // cursor offset from g_begin at the time of the event
      int32_t aux;  // E_ACT: span begin;  E_ENTER: hash of the rule type name
   };
   struct ActCall
   {
      int rule, b, e, how;  // how: 1 apply 2 apply0
   };
   struct Frame
   {
      int rule, kind;
      const char* begin;
      uint8_t A, M;
      size_t act_mark;
      int child_A;
      size_t sw_mark = 0;  // apply mode the sub-rules must see: 0 nothing, 1 action, -1 inherited
   };
   inline bool op_is_lookahead( int op )
   {
      return op == AT || op == AT2 || op == NOT_AT || op == NOT_AT2 || op == RMM00 || op == REP_MAX0;
   }
   inline int child_mode( int kind, int rule )
   {
      if( kind == RK_AT || kind == RK_NOT_AT || kind == RK_DISABLE ) return 0;
      if( kind == RK_ENABLE ) return 1;
      if( kind == RK_NODE ) {
         const int op = tab[ rule ].op;
         if( op_is_lookahead( op ) || op == DISABLE ) return 0;
         if( op == ENABLE ) return 1;
      }
      return -1;
   }
   struct StEv
   {
      int what;  // 0 ctor 1 success 2 dtor
      int id, pos, outer;
   };
   inline std::vector< StEv > st_log;
   inline int st_next_id = 0;
   struct SwAct
   {
      int rule, fam, b, e, state;
   };
   inline std::vector< SwAct > sw_acts;  // transactional like L.acts (truncated through Frame::sw_mark)
   inline std::vector< std::array< int, 3 > > ctl_log;  // (control id, rule, pos) at every start hook of a table rule


   struct Log
   {
      std::vector< Ev > ev;
      std::vector< ActCall > acts;  // transactional: truncated when an enclosing attempt fails
      std::vector< ActCall > all_acts;  // every action invocation in call order (never truncated)
      std::vector< Frame > frames;
      bool record_events = false;
      // online verdicts
      int c02 = 0;
      std::string c02_msg;
      int c04 = 0;
      std::string c04_msg;
      int c03 = 0;
      std::string c03_msg, c03_hook;
      int c06 = 0;
      std::string c06_msg, c06_info;
      bool raise_in_rematch = false;  // a raise() happened while a rematch / minus table rule was open
      long rewinds_after_consume = 0;  // vacuity counter: failures under M=required after the cursor had moved
      void reset()
      {
         ev.clear();
         acts.clear();
         all_acts.clear();
         frames.clear();
         c02 = c04 = c03 = c06 = 0;
         raise_in_rematch = false;
         c02_msg.clear();
         c04_msg.clear();
         c03_msg.clear();
         c03_hook.clear();
         c06_msg.clear();
         c06_info.clear();
      }
   };
   inline Log L;
   inline uint8_t top_A = 1;  // apply mode requested at the parse() call (1 = action)
   inline bool monitor_frames = true;  // false when the run uses a control without the monitor (coverage<>): action frame checks are skipped
   inline bool monitor_apply_mode = true;  // off where enable_action / disable_action attachments change the mode outside the rule structure

   // position oracle (the C06 formula): a function of the consumed prefix and the initial counters only
   struct PosF
   {
      size_t byte, line, column;
   };
   inline PosF pos_formula( const char* data, long off, int eol_char, size_t b0, size_t l0, size_t c0 )
   {
      PosF r{ b0 + size_t( off ), l0, c0 };
      for( long i = 0; i < off; ++i ) {
         if( data[ i ] == eol_char ) {
            ++r.line;
            r.column = 1;
         }
         else
            ++r.column;
      }
      return r;
   }
   inline bool check_positions = false;
   inline std::string classify_pos_diff( const char* data, long off, int eol_char, bool eager, const PosF& got, const PosF& want )
   {
      // known shape: cr_crlf policy, eager tracking: eol consumed "\r\n" with bump_to_next_line( 2 ) => column restarts
      // after the LF instead of after the CR (the policy's line-counting character)
      if( eager && eol_char == '\r' && got.byte == want.byte && got.line == want.line && got.column + 1 == want.column ) {
         long i = off;
         while( i > 0 && data[ i - 1 ] != '\r' ) --i;
         if( i > 0 && i < off && data[ i ] == '\n' ) return "cr_crlf eager: column is one less than the formula after a CR LF pair";
      }
      return "";
   }
   template< typename In >
   void position_check( const In& in, const char* where, const std::string& rule )
   {
      const auto p = in.position();
      const long off = in.current() - g_begin;
      const PosF e = pos_formula( g_begin, off, In::eol_t::ch, g_ib, g_il, g_ic );
      constexpr bool eager = ( In::tracking_mode_v == p::tracking_mode::eager );
      bool bad = ( p.byte != e.byte || p.line != e.line || p.column != e.column );
      std::string what = "in.position()";
      PosF got{ p.byte, p.line, p.column };
      if( !bad ) {
         // the input's own counters
         if( in.byte() != e.byte ) {
            bad = true;
            what = "in.byte()";
            got.byte = in.byte();
         }
         if constexpr( eager ) {
            if( in.line() != e.line || in.column() != e.column ) {
               bad = true;
               what = "in.line()/in.column()";
               got.line = in.line();
               got.column = in.column();
            }
         }
      }
      if( bad ) {
         ++L.c06;
         std::string cls = classify_pos_diff( g_begin, off, In::eol_t::ch, eager, got, e );
         if( cls.empty() && !eager ) {
            // known shape: rematch / minus build the input of the second phase from a bare pointer when tracking is lazy,
            // so positions observed inside it count from the start of the re-matched text
            for( const auto& f : L.frames )
               if( f.kind == RK_NODE && ( tab[ f.rule ].op == REMATCH || tab[ f.rule ].op == REMATCH3 || tab[ f.rule ].op == MINUS ) ) cls = "lazy input: positions inside the second phase of rematch / minus are relative to the re-matched text";
         }
         L.c06_msg = cls.empty() ? what + " differs from the prefix formula" : cls;
         L.c06_info = std::string( where ) + " of " + rule + ": offset " + std::to_string( off ) + " reported " + std::to_string( got.byte ) + ":" + std::to_string( got.line ) + ":" + std::to_string( got.column ) + " formula " + std::to_string( e.byte ) + ":" + std::to_string( e.line ) + ":" + std::to_string( e.column );
      }
   }

   inline int expected_A( size_t skip = 0 )
   {
      for( size_t i = L.frames.size() - skip; i-- > 0; ) {
         if( L.frames[ i ].child_A >= 0 ) return L.frames[ i ].child_A;
      }
      return top_A;
   }

   template< typename In >
   inline bool same_iter( const typename In::inputerator_t& a, const typename In::inputerator_t& b )
   {
      if constexpr( std::is_same_v< typename In::inputerator_t, const char* > ) {
         return a == b;
      }
      else {
         return a.data == b.data && a.byte == b.byte && a.line == b.line && a.column == b.column;
      }
   }
   template< typename It >
   inline const char* iter_ptr( const It& a )
   {
      if constexpr( std::is_same_v< It, const char* > )
         return a;
      else
         return a.data;
   }

   inline std::string short_type( std::string s )
   {
      for( const char* ns : { "tao::pegtl::internal::", "tao::pegtl::ascii::", "tao::pegtl::", "T::" } ) {
         size_t q;
         while( ( q = s.find( ns ) ) != std::string::npos ) s.erase( q, strlen( ns ) );
      }
      return s;
   }
   // stable name of the rule of a monitor frame: the table operator for node<I>, the (shortened) type otherwise
   template< typename Rule >
   std::string rule_name()
   {
      if constexpr( rid< Rule >::kind == RK_NODE )
         return std::string( "table rule " ) + opinfo[ tab[ rid< Rule >::v ].op ].name;
      else {
         std::string s = short_type( std::string( p::demangle< Rule >() ) );
         // node<2u> -> node: which table slot is irrelevant for the call site
         for( size_t q = 0; ( q = s.find( "node<", q ) ) != std::string::npos; ) {
            const size_t e = s.find( '>', q );
            s.replace( q, e - q + 1, "node" );
         }
         return s;
      }
   }
   inline std::string innermost_rule_name()
   {
      if( L.frames.empty() ) return "top level";
      const Frame& f = L.frames.back();
      if( f.kind == RK_NODE ) return std::string( "table rule " ) + opinfo[ tab[ f.rule ].op ].name;
      return "internal rule";
   }

   // cursor of whatever a hook is handed as "input" (raise_nested passes a position object when no input is at hand)
   template< typename X >
   auto cur_of( const X& x, int ) -> decltype( x.current() )
   {
      return x.current();
   }
   template< typename X >
   const char* cur_of( const X&, long )
   {
      return g_begin;
   }

   template< typename Rule, bool WithUnwind, bool AllEnabled >
   struct mon_base : p::normal< Rule >
   {
      static constexpr bool enable = AllEnabled ? true : p::normal< Rule >::enable;

      template< typename In >
      static void log( uint8_t t, const In& in, int aux = 0 )
      {
         if( L.record_events ) L.ev.push_back( { t, int16_t( rid< Rule >::v ), uint8_t( rid< Rule >::kind ), uint8_t( enable ), 0, 0, int32_t( cur_of( in, 0 ) - g_begin ), aux } );
      }
      template< typename In, typename... St >
      static void start( const In& in, St&&... )
      {
         log( E_START, in );
      }
      template< typename In, typename... St >
      static void success( const In& in, St&&... )
      {
         log( E_SUCCESS, in );
      }
      template< typename In, typename... St >
      static void failure( const In& in, St&&... )
      {
         log( E_FAILURE, in );
      }
      template< typename In, typename... St >
      [[noreturn]] static void raise( const In& in, St&&... st )
      {
         for( const auto& f : L.frames )
            if( f.kind == RK_NODE && ( tab[ f.rule ].op == REMATCH || tab[ f.rule ].op == REMATCH3 || tab[ f.rule ].op == MINUS ) ) L.raise_in_rematch = true;
         log( E_RAISE, in );
         p::normal< Rule >::raise( in, st... );
      }
      template< template< typename... > class Action, typename It, typename In, typename... St >
      static auto apply( const It& begin, const In& in, St&&... st )
         -> decltype( p::normal< Rule >::template apply< Action >( begin, in, st... ) )
      {
         log( E_APPLY, in, int( iter_ptr( begin ) - g_begin ) );
         return p::normal< Rule >::template apply< Action >( begin, in, st... );
      }
      template< template< typename... > class Action, typename In, typename... St >
      static auto apply0( const In& in, St&&... st )
         -> decltype( p::normal< Rule >::template apply0< Action >( in, st... ) )
      {
         log( E_APPLY0, in );
         return p::normal< Rule >::template apply0< Action >( in, st... );
      }

      template< VERIF_TP >
      [[nodiscard]] static bool match( In& in, St&&... st )
      {
         const auto saved = in.inputerator();
         const char* const b = in.current();
         if( L.record_events ) L.ev.push_back( { E_ENTER, int16_t( rid< Rule >::v ), uint8_t( rid< Rule >::kind ), uint8_t( enable ), uint8_t( A == p::apply_mode::action ), uint8_t( M == p::rewind_mode::required ), int32_t( b - g_begin ), 0 } );
         if( monitor_apply_mode && int( A == p::apply_mode::action ) != expected_A() ) {
            ++L.c04;
            L.c04_msg = "apply_mode differs from the lexically expected one|" + rule_name< Rule >();
         }
         if( b > in.end() ) {
            ++L.c03;
            L.c03_msg = "cursor beyond end on entry|" + rule_name< Rule >();
         }
         if( check_positions ) position_check( in, "entry", std::string( p::demangle< Rule >() ) );
         L.frames.push_back( { rid< Rule >::v, rid< Rule >::kind, b, uint8_t( A == p::apply_mode::action ), uint8_t( M == p::rewind_mode::required ), L.acts.size(), child_mode( rid< Rule >::kind, rid< Rule >::v ), sw_acts.size() } );
         struct exit_guard
         {
            const In& in;
            bool done = false;
            ~exit_guard()
            {
               if( !done ) {  // an exception is passing through
                  L.frames.pop_back();
                  log( E_EXIT_X, in );
               }
            }
         } eg{ in };
         const int hook_before = verif_c03;
         const bool r = p::normal< Rule >::template match< A, M, Action, Control >( in, st... );
         eg.done = true;
         if( verif_c03 != hook_before && L.c03_hook.empty() ) L.c03_hook = std::string( verif_c03_what ) + "|" + rule_name< Rule >();
         const Frame fr = L.frames.back();
         L.frames.pop_back();
         log( r ? E_EXIT_T : E_EXIT_F, in );
         if( in.current() > in.end() ) {
            ++L.c03;
            L.c03_msg = "cursor beyond end on exit|" + rule_name< Rule >();
         }
         if( check_positions ) position_check( in, "exit", std::string( p::demangle< Rule >() ) );
         if( !r ) {
            L.acts.resize( fr.act_mark );  // whatever fired inside a failed attempt is not part of the derivation
            sw_acts.resize( fr.sw_mark );
            if( M == p::rewind_mode::required ) {
               if( !same_iter< In >( in.inputerator(), saved ) ) {
                  ++L.c02;
                  if( L.c02 == 1 ) L.c02_msg = "local failure with rewind_mode::required left the cursor moved|" + rule_name< Rule >();
               }
            }
         }
         else if( in.current() < b ) {
            ++L.c02;
            if( L.c02 == 1 ) L.c02_msg = "cursor moved backwards on success|" + rule_name< Rule >();
         }
         if( ( rid< Rule >::kind == RK_AT || rid< Rule >::kind == RK_NOT_AT || ( rid< Rule >::kind == RK_NODE && op_is_lookahead( tab[ fr.rule ].op ) ) ) && !same_iter< In >( in.inputerator(), saved ) ) {
            ++L.c02;
            if( L.c02 == 1 ) L.c02_msg = "look-ahead rule moved the cursor|" + rule_name< Rule >();
         }
         return r;
      }
   };

   template< typename Rule >
   struct mon : mon_base< Rule, true, false >
   {
      template< typename In, typename... St >
      static void unwind( const In& in, St&&... )
      {
         mon_base< Rule, true, false >::log( E_UNWIND, in );
      }
   };
   // the same monitor with an unwind() of fixed arity (no states): what a user who parses without states writes
   template< typename Rule >
   struct mon_fix : mon_base< Rule, true, false >
   {
      template< typename In >
      static void unwind( const In& in )
      {
         mon_base< Rule, true, false >::log( E_UNWIND, in );
      }
   };
   template< typename Rule >
   struct mon_nounwind : mon_base< Rule, false, false >
   {};
   template< typename Rule >
   struct mon_all : mon_base< Rule, true, true >
   {
      template< typename In, typename... St >
      static void unwind( const In& in, St&&... )
      {
         mon_base< Rule, true, true >::log( E_UNWIND, in );
      }
   };

   // ------------------------------------------------------------------ action families (keyed on rule id)
   template< typename AI >
   inline void on_action( int I, int how, const AI* ai )
   {
      const int e = int( L.frames.empty() ? -1 : 0 );
      (void)e;
      int b = -1, en = -1;
      if( !monitor_frames ) {
         if( ai ) {
            b = int( ai->begin() - g_begin );
            en = int( ai->end() - g_begin );
         }
      }
      else if( L.frames.empty() || L.frames.back().rule != I ) {
         ++L.c04;
         L.c04_msg = "action of n" + std::to_string( I ) + " invoked outside an attempt of that rule";
      }
      else {
         const Frame& fr = L.frames.back();
         if( !fr.A ) {
            ++L.c04;
            L.c04_msg = "action of n" + std::to_string( I ) + " invoked with apply_mode::nothing";
         }
         if( monitor_apply_mode && expected_A( 1 ) != 1 ) {
            ++L.c04;
            L.c04_msg = "action of n" + std::to_string( I ) + " invoked inside look-ahead or a disabled section";
         }
         b = int( fr.begin - g_begin );
         if( ai ) {
            if( ai->begin() != fr.begin ) {
               ++L.c04;
               L.c04_msg = "action input of n" + std::to_string( I ) + " does not begin where the match started";
            }
            if( ai->end() != ai->input().current() ) {
               ++L.c04;
               L.c04_msg = "action input end differs from the cursor";
            }
            en = int( ai->end() - g_begin );
            b = int( ai->begin() - g_begin );
            if( check_positions ) {
               const auto ap = ai->position();
               const PosF e = pos_formula( g_begin, b, AI::input_t::eol_t::ch, g_ib, g_il, g_ic );
               if( ap.byte != e.byte || ap.line != e.line || ap.column != e.column ) {
                  ++L.c06;
                  const std::string cls = classify_pos_diff( g_begin, b, AI::input_t::eol_t::ch, AI::input_t::tracking_mode_v == p::tracking_mode::eager, PosF{ ap.byte, ap.line, ap.column }, e );
                  L.c06_msg = cls.empty() ? "action input position differs from the prefix formula" : cls;
               }
            }
         }
      }
      L.acts.push_back( { I, b, en, how } );
      L.all_acts.push_back( { I, b, en, how } );
      if( L.record_events ) L.ev.push_back( { E_ACT, int16_t( I ), RK_NODE, 1, 1, 0, en, b } );
   }

   // actions of the apply / apply0 / if_apply rules: pseudo rule ids 200 (with input) and 201 (without)
   constexpr int RULE_ACTION_ID = 200, RULE_ACTION0_ID = 201;
   struct rule_action
   {
      template< typename AI, typename... St >
      static bool apply( const AI& in, St&&... )
      {
         const int b = int( in.begin() - g_begin ), e = int( in.end() - g_begin );
         if( monitor_apply_mode && expected_A() != 1 ) {
            ++L.c04;
            L.c04_msg = "action of an apply / if_apply rule invoked inside look-ahead or a disabled section";
         }
         if( in.end() != in.input().current() ) {
            ++L.c04;
            L.c04_msg = "action input end of an apply / if_apply rule differs from the cursor";
         }
         L.acts.push_back( { RULE_ACTION_ID, b, e, 1 } );
         L.all_acts.push_back( { RULE_ACTION_ID, b, e, 1 } );
         const int d = act_decision( RULE_ACTION_ID, b, e, true );
         if( d == 2 ) throw ActX{ RULE_ACTION_ID };
         return d == 0;
      }
   };
   struct rule_action0
   {
      template< typename... St >
      static bool apply0( St&&... )
      {
         if( monitor_apply_mode && expected_A() != 1 ) {
            ++L.c04;
            L.c04_msg = "action of an apply0 rule invoked inside look-ahead or a disabled section";
         }
         const int b = L.frames.empty() ? -1 : int( L.frames.back().begin - g_begin );
         L.acts.push_back( { RULE_ACTION0_ID, b, -1, 2 } );
         L.all_acts.push_back( { RULE_ACTION0_ID, b, -1, 2 } );
         const int d = act_decision( RULE_ACTION0_ID, b, -2, true );
         if( d == 2 ) throw ActX{ RULE_ACTION0_ID };
         return d == 0;
      }
   };

   // which rule ids carry which kind of action:  0 none, 1 void apply, 2 void apply0, 3 bool apply, 4 bool apply0
   inline int act_kind_of( int fam, int I )
   {
      switch( fam ) {
         case 0: return 0;
         case 1: return 1;
         case 2: return 2;
         case 3: return ( I % 2 == 0 ) ? 1 : 2;  // mixed
         case 4: return ( I % 2 == 0 ) ? 0 : 1;  // only odd rules
         case 5: return 3;                      // bool apply everywhere
         case 6: return 4;                      // bool apply0 everywhere
         case 7: return ( I % 2 == 0 ) ? 3 : 4;
      }
      return 0;
   }

   template< typename Rule >
   struct act_apply : p::nothing< Rule >
   {};
   template< unsigned I >
   struct act_apply< node< I > >
   {
      template< typename AI, typename... St >
      static void apply( const AI& in, St&&... )
      {
         on_action( int( I ), 1, &in );
         const int d = act_decision( int( I ), int( in.begin() - g_begin ), int( in.end() - g_begin ), false );
         if( d == 2 ) throw ActX{ int( I ) };
      }
   };
   template< typename Rule >
   struct act_apply0 : p::nothing< Rule >
   {};
   template< unsigned I >
   struct act_apply0< node< I > >
   {
      template< typename... St >
      static void apply0( St&&... )
      {
         on_action< pi::action_input< p::memory_input<> > >( int( I ), 2, nullptr );
         const Frame& fr = L.frames.back();
         const int d = act_decision( int( I ), int( fr.begin - g_begin ), -2, false );
         if( d == 2 ) throw ActX{ int( I ) };
      }
   };
   template< typename Rule >
   struct act_mixed : p::nothing< Rule >
   {};
   template< unsigned I >
   struct act_mixed< node< I > > : std::conditional_t< I % 2 == 0, act_apply< node< I > >, act_apply0< node< I > > >
   {};
   template< typename Rule >
   struct act_odd : p::nothing< Rule >
   {};
   template< unsigned I >
   struct act_odd< node< I > > : std::conditional_t< I % 2 == 0, p::nothing< node< I > >, act_apply< node< I > > >
   {};
   template< typename Rule >
   struct act_bool : p::nothing< Rule >
   {};
   template< unsigned I >
   struct act_bool< node< I > >
   {
      template< typename AI, typename... St >
      static bool apply( const AI& in, St&&... )
      {
         on_action( int( I ), 1, &in );
         const int d = act_decision( int( I ), int( in.begin() - g_begin ), int( in.end() - g_begin ), true );
         if( d == 2 ) throw ActX{ int( I ) };
         return d == 0;
      }
   };
   template< typename Rule >
   struct act_bool0 : p::nothing< Rule >
   {};
   template< unsigned I >
   struct act_bool0< node< I > >
   {
      template< typename... St >
      static bool apply0( St&&... )
      {
         on_action< pi::action_input< p::memory_input<> > >( int( I ), 2, nullptr );
         const Frame& fr = L.frames.back();
         const int d = act_decision( int( I ), int( fr.begin - g_begin ), -2, true );
         if( d == 2 ) throw ActX{ int( I ) };
         return d == 0;
      }
   };
   template< typename Rule >
   struct act_boolmix : p::nothing< Rule >
   {};
   template< unsigned I >
   struct act_boolmix< node< I > > : std::conditional_t< I % 2 == 0, act_bool< node< I > >, act_bool0< node< I > > >
   {};

   // family 20: every table rule's action derives from control_action - control hooks (start / success / failure / unwind) at
   // the action level; they must be called for every attempt of the rule, whatever the apply mode
   inline long ca_counts[ K ][ 4 ];
   template< typename Rule >
   struct act_ctl : p::nothing< Rule >
   {};
   template< unsigned I >
   struct act_ctl< node< I > > : p::control_action
   {
      template< typename In, typename... St >
      static void start( const In&, St&&... ) noexcept
      {
         ++ca_counts[ I ][ 0 ];
      }
      template< typename In, typename... St >
      static void success( const In&, St&&... ) noexcept
      {
         ++ca_counts[ I ][ 1 ];
      }
      template< typename In, typename... St >
      static void failure( const In&, St&&... ) noexcept
      {
         ++ca_counts[ I ][ 2 ];
      }
      template< typename In, typename... St >
      static void unwind( const In&, St&&... ) noexcept
      {
         ++ca_counts[ I ][ 3 ];
      }
   };

   // ------------------------------------------------------------------ attachments by rule id (families >= 8)
   // One constexpr table drives both the action classes given to the implementation and the reference.
   enum AKind
   {
      AK_NONE,
      AK_APPLY,
      AK_LIMIT_BYTES,
      AK_CHECK_BYTES,
      AK_LIMIT_DEPTH,
      AK_CHANGE_STATE,
      AK_CHANGE_STATES,
      AK_CHANGE_ACTION,
      AK_CHANGE_ACTION_AND_STATE,
      AK_CHANGE_ACTION_AND_STATES,
      AK_CHANGE_CONTROL,
      AK_ENABLE_ACTION,
      AK_DISABLE_ACTION,
      AK_CHANGE_STATE_D,             // change_state with a state that is only default constructible
      AK_CHANGE_ACTION_AND_STATE_D
   };
   struct Attach
   {
      int kind, n;
   };
   constexpr int FAM_ALT = 15;  // the family switched to by change_action*: plain logging actions everywhere
   constexpr Attach attach_of( int fam, int I )
   {
      switch( fam ) {
         case 8: return I == 1 ? Attach{ AK_LIMIT_BYTES, 2 } : I == 2 ? Attach{ AK_CHECK_BYTES, 1 } : Attach{ AK_APPLY, 0 };
         case 9: return I == 0 ? Attach{ AK_LIMIT_BYTES, 3 } : I == 2 ? Attach{ AK_LIMIT_BYTES, 1 } : Attach{ AK_NONE, 0 };
         case 10: return Attach{ AK_LIMIT_DEPTH, 2 };
         case 11: return I >= 1 ? Attach{ AK_LIMIT_DEPTH, 1 } : Attach{ AK_NONE, 0 };
         case 12: return I == 0 ? Attach{ AK_APPLY, 0 } : I == 1 ? Attach{ AK_CHANGE_STATE, 0 } : I == 2 ? Attach{ AK_CHANGE_ACTION, 0 } : Attach{ AK_DISABLE_ACTION, 0 };
         case 13: return I == 0 ? Attach{ AK_APPLY, 0 } : I == 1 ? Attach{ AK_CHANGE_STATES, 0 } : I == 2 ? Attach{ AK_CHANGE_ACTION_AND_STATE, 0 } : Attach{ AK_ENABLE_ACTION, 0 };
         case 14: return I == 0 ? Attach{ AK_APPLY, 0 } : I == 1 ? Attach{ AK_CHANGE_CONTROL, 0 } : I == 2 ? Attach{ AK_CHANGE_ACTION_AND_STATES, 0 } : Attach{ AK_CHANGE_ACTION_AND_STATE, 0 };
         case 16: return I == 0 ? Attach{ AK_APPLY, 0 } : I == 1 ? Attach{ AK_CHANGE_STATE_D, 0 } : I == 2 ? Attach{ AK_CHANGE_ACTION_AND_STATE_D, 0 } : Attach{ AK_APPLY, 0 };
         case 17: return I == 0 ? Attach{ AK_APPLY, 0 } : I == 1 ? Attach{ AK_CHANGE_STATES, 0 } : I == 2 ? Attach{ AK_CHANGE_ACTION, 0 } : Attach{ AK_CHANGE_ACTION_AND_STATES, 0 };
         case 18: return I == 0 ? Attach{ AK_APPLY, 0 } : I == 1 ? Attach{ AK_APPLY, 0 } : I == 2 ? Attach{ AK_DISABLE_ACTION, 0 } : Attach{ AK_CHANGE_ACTION_AND_STATE_D, 0 };
         case 19: return I == 0 ? Attach{ AK_APPLY, 0 } : I == 1 ? Attach{ AK_ENABLE_ACTION, 0 } : I == 2 ? Attach{ AK_CHANGE_STATE_D, 0 } : Attach{ AK_CHANGE_ACTION, 0 };
         case FAM_ALT: return I == 3 ? Attach{ AK_CHANGE_STATE, 0 } : Attach{ AK_APPLY, 0 };  // a switch inside the family switched to
      }
      return Attach{ AK_NONE, 0 };
   }

   // logging state (C13)
   struct StateBase
   {
      int id;
   };
   struct LogState : StateBase
   {
      template< typename In, typename... Outer >
      static int outer_id( Outer&&... )
      {
         return -1;
      }
      static int first_id()
      {
         return -1;
      }

      template< typename T, typename... Rest >
      static int first_id( const T& t, Rest&&... rest )
      {
         if constexpr( std::is_base_of_v< StateBase, T > )
            return static_cast< const StateBase& >( t ).id;
         else
            return first_id( rest... );
      }
      template< typename In, typename... Outer >
      explicit LogState( const In& in, Outer&&... outer )
         : StateBase{ st_next_id++ }
      {
         st_log.push_back( { 0, id, int( in.current() - g_begin ), first_id( outer... ) } );
      }
      LogState()
         : StateBase{ st_next_id++ }
      {
         st_log.push_back( { 0, id, -1, -2 } );  // default constructed (change_states)
      }
      LogState( const LogState& ) = delete;
      template< typename In, typename... Outer >
      void success( const In& in, Outer&&... outer )
      {
         st_log.push_back( { 1, id, int( in.current() - g_begin ), first_id( outer... ) } );
      }
      ~LogState()
      {
         st_log.push_back( { 2, id, -1, -1 } );
      }
   };
   // a state that can only be default constructed: change_state takes its second branch
   struct LogStateD : StateBase
   {
      LogStateD()
         : StateBase{ st_next_id++ }
      {
         st_log.push_back( { 0, id, -1, -2 } );
      }
      LogStateD( const LogStateD& ) = delete;
      template< typename In, typename... Outer >
      void success( const In& in, Outer&&... outer )
      {
         st_log.push_back( { 1, id, int( in.current() - g_begin ), LogState::first_id( outer... ) } );
      }
      ~LogStateD()
      {
         st_log.push_back( { 2, id, -1, -1 } );
      }
   };
   template< int Fam, typename Rule >
   struct sw_act;
   template< int Fam, unsigned I, int Kind, int N >
   struct sw_impl : p::nothing< node< I > >
   {};
   template< int Fam, unsigned I, int N >
   struct sw_impl< Fam, I, AK_APPLY, N >
   {
      template< typename AI, typename... St >
      static void apply( const AI& in, St&&... st )
      {
         on_action( int( I ), 1, &in );
         sw_acts.push_back( { int( I ), Fam, int( in.begin() - g_begin ), int( in.end() - g_begin ), LogState::first_id( st... ) } );
      }
   };
   template< int Fam, unsigned I, int N >
   struct sw_impl< Fam, I, AK_LIMIT_BYTES, N > : p::limit_bytes< std::size_t( N ) >
   {};
   template< int Fam, unsigned I, int N >
   struct sw_impl< Fam, I, AK_CHECK_BYTES, N > : p::check_bytes< std::size_t( N ) >
   {};
   template< int Fam, unsigned I, int N >
   struct sw_impl< Fam, I, AK_LIMIT_DEPTH, N > : p::limit_depth< std::size_t( N ) >
   {};
   template< typename Rule >
   struct fam_alt;
   template< typename Rule >
   struct mon2;
   template< int Fam, unsigned I, int N >
   struct sw_impl< Fam, I, AK_CHANGE_STATE, N > : p::change_state< LogState >
   {};
   template< int Fam, unsigned I, int N >
   struct sw_impl< Fam, I, AK_CHANGE_STATES, N > : p::change_states< LogState >
   {
      template< typename In, typename... St >
      static void success( const In& in, LogState& s, St&&... st )
      {
         s.success( in, st... );
      }
   };
   template< int Fam, unsigned I, int N >
   struct sw_impl< Fam, I, AK_CHANGE_ACTION, N > : p::change_action< fam_alt >
   {};
   template< int Fam, unsigned I, int N >
   struct sw_impl< Fam, I, AK_CHANGE_ACTION_AND_STATE, N > : p::change_action_and_state< fam_alt, LogState >
   {};
   template< int Fam, unsigned I, int N >
   struct sw_impl< Fam, I, AK_CHANGE_ACTION_AND_STATES, N > : p::change_action_and_states< fam_alt, LogState >
   {
      template< typename In, typename... St >
      static void success( const In& in, LogState& s, St&&... st )
      {
         s.success( in, st... );
      }
   };
   template< int Fam, unsigned I, int N >
   struct sw_impl< Fam, I, AK_CHANGE_CONTROL, N > : p::change_control< mon2 >
   {};
   template< int Fam, unsigned I, int N >
   struct sw_impl< Fam, I, AK_CHANGE_STATE_D, N > : p::change_state< LogStateD >
   {};
   template< int Fam, unsigned I, int N >
   struct sw_impl< Fam, I, AK_CHANGE_ACTION_AND_STATE_D, N > : p::change_action_and_state< fam_alt, LogStateD >
   {};
   template< int Fam, unsigned I, int N >
   struct sw_impl< Fam, I, AK_ENABLE_ACTION, N > : p::enable_action
   {};
   template< int Fam, unsigned I, int N >
   struct sw_impl< Fam, I, AK_DISABLE_ACTION, N > : p::disable_action
   {};

   template< int Fam, typename Rule >
   struct sw_act : p::nothing< Rule >
   {};
   template< int Fam, unsigned I >
   struct sw_act< Fam, node< I > > : sw_impl< Fam, I, attach_of( Fam, int( I ) ).kind, attach_of( Fam, int( I ) ).n >
   {};
   // clang-format off
   template< typename Rule > struct fam8 : sw_act< 8, Rule > {};
   template< typename Rule > struct fam9 : sw_act< 9, Rule > {};
   template< typename Rule > struct fam10 : sw_act< 10, Rule > {};
   template< typename Rule > struct fam11 : sw_act< 11, Rule > {};
   template< typename Rule > struct fam12 : sw_act< 12, Rule > {};
   template< typename Rule > struct fam13 : sw_act< 13, Rule > {};
   template< typename Rule > struct fam14 : sw_act< 14, Rule > {};
   template< typename Rule > struct fam16 : sw_act< 16, Rule > {};
   template< typename Rule > struct fam17 : sw_act< 17, Rule > {};
   template< typename Rule > struct fam18 : sw_act< 18, Rule > {};
   template< typename Rule > struct fam19 : sw_act< 19, Rule > {};
   template< typename Rule > struct fam_alt : sw_act< FAM_ALT, Rule > {};
   // clang-format on

   // second control (C13 change_control): same monitor, tagged events
   template< typename Rule >
   struct mon2 : mon_base< Rule, true, false >
   {
      template< typename In, typename... St >
      static void start( const In& in, St&&... )
      {
         if( rid< Rule >::kind == RK_NODE ) ctl_log.push_back( { 2, rid< Rule >::v, int( in.current() - g_begin ) } );
         mon_base< Rule, true, false >::log( E_START, in );
      }
      template< typename In, typename... St >
      static void unwind( const In& in, St&&... )
      {
         mon_base< Rule, true, false >::log( E_UNWIND, in );
      }
   };
   template< typename Rule >
   struct mon1 : mon_base< Rule, true, false >
   {
      template< typename In, typename... St >
      static void start( const In& in, St&&... )
      {
         if( rid< Rule >::kind == RK_NODE ) ctl_log.push_back( { 1, rid< Rule >::v, int( in.current() - g_begin ) } );
         mon_base< Rule, true, false >::log( E_START, in );
      }
      template< typename In, typename... St >
      static void unwind( const In& in, St&&... )
      {
         mon_base< Rule, true, false >::log( E_UNWIND, in );
      }
   };

   // ------------------------------------------------------------------ must_if controls (C05)
   // ErrA: message table (a custom message for node<1>): every local failure of node<1> becomes a global one
   // ErrB: explicit raise_on_failure for node<2> only (default message); a message for node<1> that must not make it raise
   struct ErrA
   {
      template< typename Rule >
      static constexpr const char* message = nullptr;
   };
   template<>
   inline constexpr const char* ErrA::message< node< 1 > > = "custom message for n1";
   struct ErrB
   {
      template< typename Rule >
      static constexpr const char* message = nullptr;
      template< typename Rule >
      static constexpr bool raise_on_failure = ( rid< Rule >::kind == RK_NODE && rid< Rule >::v == 2 );
   };
   // ErrB also has a message for node<1>, which raise_on_failure leaves a *local* failure (the documented switch)
   template<>
   inline constexpr const char* ErrB::message< node< 1 > > = "message B for n1";
   inline bool raises_on_failure( int I );
   // the must_if control over the monitor; the wrapper only marks, in the event log, the failures that the table turns into
   // a raise (decided from the harness' own copy of the table, not from the library's raise_on_failure)
   template< typename Errors, typename Rule >
   struct mon_err : p::must_if< Errors, mon, false >::template control< Rule >
   {
      using base = typename p::must_if< Errors, mon, false >::template control< Rule >;
      template< typename In, typename... St >
      static void failure( const In& in, St&&... st ) noexcept( noexcept( base::failure( in, st... ) ) )
      {
         if( rid< Rule >::kind == RK_NODE && raises_on_failure( rid< Rule >::v ) ) mon_base< Rule, true, false >::log( E_FAIL_RAISE, in );
         base::failure( in, st... );
      }
   };
   template< typename Rule >
   using mon_errA = mon_err< ErrA, Rule >;
   template< typename Rule >
   using mon_errB = mon_err< ErrB, Rule >;
   // the same tables over the plain normal control (its hooks are noexcept, unlike the monitor's)
   template< typename Rule >
   using plain_errA = typename p::must_if< ErrA, p::normal, false >::template control< Rule >;
   template< typename Rule >
   using plain_errB = typename p::must_if< ErrB, p::normal, false >::template control< Rule >;
   // the adaptor parse_tree and other state-injecting facilities put around a user control: the monitor, and the must_if
   // table A over the plain control, behind remove_first_state (the parse then runs with one leading dummy state)
   template< typename Rule >
   struct rfs_mon : p::remove_first_state< mon< Rule > >
   {};
   template< typename Rule >
   struct rfs_errA : p::remove_first_state< plain_errA< Rule > >
   {};
   inline int g_errors = 0;  // 0 none, 1 ErrA, 2 ErrB (tells the reference which must_if table is in effect)
   inline bool raises_on_failure( int I )
   {
      return ( g_errors == 1 && I == 1 ) || ( g_errors == 2 && I == 2 );
   }

   // ------------------------------------------------------------------ running the implementation
   struct Real
   {
      enum Kind
      {
         FAILED = 0,
         OK = 1,
         PARSE_ERROR = 2,
         HOLE_X = 3,
         HOLE_STD = 4,
         ACT_X = 5,
         FUEL = 6,
         OTHER = 7
      };
      int kind = 0;
      int pos = 0;       // cursor offset after the run (OK / FAILED)
      int who = -1;      // node id for HOLE_X / HOLE_STD / ACT_X
      std::string msg;   // parse_error message
      size_t byte = 0, line = 0, column = 0;
      std::string what;
      bool nested = false;  // std::nested_exception present
      int nested_kind = -1;
      std::string nested_msg;
   };

   template< typename Exc >
   inline void describe_nested( const Exc& e, Real& r )
   {
      try {
         std::rethrow_if_nested( e );
      }
      catch( const p::parse_error& n ) {
         r.nested = true;
         r.nested_kind = Real::PARSE_ERROR;
         r.nested_msg = std::string( n.message() );
      }
      catch( const HoleStd& n ) {
         r.nested = true;
         r.nested_kind = Real::HOLE_STD;
      }
      catch( const HoleX& n ) {
         r.nested = true;
         r.nested_kind = Real::HOLE_X;
      }
      catch( const ActX& n ) {
         r.nested = true;
         r.nested_kind = Real::ACT_X;
      }
      catch( ... ) {
         r.nested = true;
         r.nested_kind = Real::OTHER;
      }
   }

   template< template< typename... > class Action, template< typename... > class Control, p::apply_mode A, p::rewind_mode M, typename In, typename... St >
   Real run_real( In& in, long fuel_limit, St&&... st )
   {
      Real r;
      fuel = fuel_limit;
      fuel_out = false;
      top_A = ( A == p::apply_mode::action );
      L.reset();
      st_log.clear();
      st_next_id = 0;
      sw_acts.clear();
      ctl_log.clear();
      try {
         const bool ok = p::parse< node< 0 >, Action, Control, A, M >( in, st... );
         r.kind = ok ? Real::OK : Real::FAILED;
         r.pos = int( in.current() - g_begin );
         if( fuel_out ) r.kind = Real::FUEL;
      }
      catch( const Fuel& ) {
         r.kind = Real::FUEL;
      }
      catch( const p::parse_error& e ) {
         r.kind = Real::PARSE_ERROR;
         r.msg = std::string( e.message() );
         r.byte = e.position_object().byte;
         r.line = e.position_object().line;
         r.column = e.position_object().column;
         r.what = e.what();
         describe_nested( e, r );
         if( fuel_out ) r.kind = Real::FUEL;
      }
      catch( const HoleStd& e ) {
         r.kind = Real::HOLE_STD;
         r.who = e.node;
      }
      catch( const HoleX& e ) {
         r.kind = Real::HOLE_X;
         r.who = e.node;
      }
      catch( const ActX& e ) {
         r.kind = Real::ACT_X;
         r.who = e.node;
      }
      catch( ... ) {
         r.kind = Real::OTHER;
      }
      if( fuel_out ) r.kind = Real::FUEL;
      return r;
   }

}  // namespace T
