// Execution pipeline shared by the table-engine harnesses: run one (table, input, configuration,
// choice prefix) on the implementation and on the reference, judge, report.
//
// TU-level knobs (define before including):
//    VERIF_FAMS   bit mask of action families to instantiate (bit f = family f of T::act_kind_of)
//    VERIF_CTLS   bit mask of controls: 1 mon (with unwind), 2 mon_nounwind, 4 mon_all
//    VERIF_TRACK  tao::pegtl::tracking_mode of the input (default eager)
//    VERIF_EOL    eol policy type (default p::eol::lf_crlf) and VERIF_EOL_KIND its R::Interp code
#pragma once
#include "ref.hpp"

#include <setjmp.h>
#include <signal.h>
#include <sys/mman.h>
#include <unistd.h>

#ifndef VERIF_FAMS
#define VERIF_FAMS 1
#endif
#ifndef VERIF_CTLS
#define VERIF_CTLS 1
#endif
#ifndef VERIF_TRACK
#define VERIF_TRACK p::tracking_mode::eager
#endif
#ifndef VERIF_EOL
#define VERIF_EOL p::eol::lf_crlf
#define VERIF_EOL_KIND 0
#endif

namespace PL
{
   using namespace T;
#ifdef VERIF_DEPTH_INPUT
   using In = p::input_with_depth< p::memory_input< VERIF_TRACK, VERIF_EOL, std::string > >;
#else
   using In = p::memory_input< VERIF_TRACK, VERIF_EOL, std::string >;
#endif

   struct Cfg
   {
      int fam = 0, ctl = 0, A = 1, M = 0;  // M: 1 required, 0 optional
      std::string str() const { return std::to_string( fam ) + "." + std::to_string( ctl ) + "." + std::to_string( A ) + "." + std::to_string( M ); }
      static Cfg parse( const std::string& s )
      {
         auto f = vf::split( s, '.' );
         return { atoi( f[ 0 ].c_str() ), atoi( f[ 1 ].c_str() ), atoi( f[ 2 ].c_str() ), atoi( f[ 3 ].c_str() ) };
      }
   };

   template< template< typename... > class Act, template< typename... > class Ctl >
   Real run_am( int A, int M, In& in, long fuel_limit )
   {
      if( A ) {
         if( M ) return run_real< Act, Ctl, p::apply_mode::action, p::rewind_mode::required >( in, fuel_limit );
         return run_real< Act, Ctl, p::apply_mode::action, p::rewind_mode::optional >( in, fuel_limit );
      }
      if( M ) return run_real< Act, Ctl, p::apply_mode::nothing, p::rewind_mode::required >( in, fuel_limit );
      return run_real< Act, Ctl, p::apply_mode::nothing, p::rewind_mode::optional >( in, fuel_limit );
   }
   template< template< typename... > class Ctl >
   Real run_fam( const Cfg& c, In& in, long fuel_limit )
   {
      switch( c.fam ) {
#define FAM( N, ACT ) \
   case N: \
      if constexpr( ( ( VERIF_FAMS ) & ( 1 << N ) ) != 0 ) return run_am< ACT, Ctl >( c.A, c.M, in, fuel_limit ); \
      break;
         FAM( 0, p::nothing )
         FAM( 1, act_apply )
         FAM( 2, act_apply0 )
         FAM( 3, act_mixed )
         FAM( 4, act_odd )
         FAM( 5, act_bool )
         FAM( 6, act_bool0 )
         FAM( 7, act_boolmix )
         FAM( 8, fam8 )
         FAM( 9, fam9 )
         FAM( 10, fam10 )
         FAM( 11, fam11 )
         FAM( 12, fam12 )
         FAM( 13, fam13 )
         FAM( 14, fam14 )
         FAM( 16, fam16 )
         FAM( 17, fam17 )
         FAM( 18, fam18 )
         FAM( 19, fam19 )
         FAM( 20, act_ctl )
#undef FAM
      }
      fprintf( stderr, "FATAL: action family %d not compiled into this unit\n", c.fam );
      abort();
   }
   // one leading dummy state in front of the control (which removes it again): void actions only
   template< template< typename... > class Act, template< typename... > class Ctl >
   Real run_lead( const Cfg& c, In& in, long fuel_limit )
   {
      int lead = 0;
      if( c.A ) {
         if( c.M ) return run_real< Act, Ctl, p::apply_mode::action, p::rewind_mode::required >( in, fuel_limit, lead );
         return run_real< Act, Ctl, p::apply_mode::action, p::rewind_mode::optional >( in, fuel_limit, lead );
      }
      if( c.M ) return run_real< Act, Ctl, p::apply_mode::nothing, p::rewind_mode::required >( in, fuel_limit, lead );
      return run_real< Act, Ctl, p::apply_mode::nothing, p::rewind_mode::optional >( in, fuel_limit, lead );
   }
   inline Real run_impl( const Cfg& c, In& in, long fuel_limit )
   {
      switch( c.ctl ) {
         case 10:
            // the whole parse runs while an unrelated exception is in flight (a parser called from a destructor during stack
            // unwinding): nothing about the run may change
            if constexpr( ( ( VERIF_CTLS ) & 1024 ) != 0 ) {
               Real out;
               struct InFlight
               {
                  const Cfg& c;
                  In& in;
                  long f;
                  Real& out;
                  ~InFlight() { out = run_fam< mon >( c, in, f ); }
               };
               try {
                  InFlight d{ c, in, fuel_limit, out };
                  throw 0;
               }
               catch( int ) {
               }
               return out;
            }
            break;
         case 8:
            if constexpr( ( ( VERIF_CTLS ) & 256 ) != 0 ) return c.fam == 0 ? run_lead< p::nothing, rfs_mon >( c, in, fuel_limit ) : run_lead< act_apply, rfs_mon >( c, in, fuel_limit );
            break;
         case 9:
            if constexpr( ( ( VERIF_CTLS ) & 512 ) != 0 ) return c.fam == 0 ? run_lead< p::nothing, rfs_errA >( c, in, fuel_limit ) : run_lead< act_apply, rfs_errA >( c, in, fuel_limit );
            break;
         case 0:
            if constexpr( ( ( VERIF_CTLS ) & 1 ) != 0 ) return run_fam< mon >( c, in, fuel_limit );
            break;
         case 1:
            if constexpr( ( ( VERIF_CTLS ) & 2 ) != 0 ) return run_fam< mon_nounwind >( c, in, fuel_limit );
            break;
         case 2:
            if constexpr( ( ( VERIF_CTLS ) & 4 ) != 0 ) return run_fam< mon_all >( c, in, fuel_limit );
            break;
         case 3:
            if constexpr( ( ( VERIF_CTLS ) & 8 ) != 0 ) return run_fam< mon1 >( c, in, fuel_limit );
            break;
         case 4:
            if constexpr( ( ( VERIF_CTLS ) & 16 ) != 0 ) return run_fam< mon_errA >( c, in, fuel_limit );
            break;
         case 5:
            if constexpr( ( ( VERIF_CTLS ) & 32 ) != 0 ) return run_fam< mon_errB >( c, in, fuel_limit );
            break;
         case 6:
            if constexpr( ( ( VERIF_CTLS ) & 64 ) != 0 ) return run_fam< plain_errA >( c, in, fuel_limit );
            break;
         case 7:
            if constexpr( ( ( VERIF_CTLS ) & 128 ) != 0 ) return run_fam< plain_errB >( c, in, fuel_limit );
            break;
      }
      fprintf( stderr, "FATAL: control %d not compiled into this unit\n", c.ctl );
      abort();
   }

   // names of the table rules as the library prints them
   template< std::size_t... Is >
   inline std::vector< std::string > mk_names( std::index_sequence< Is... > )
   {
      return { std::string( p::demangle< node< Is > >() )... };
   }
   inline const std::vector< std::string > node_names = mk_names( std::make_index_sequence< K >() );
   inline std::string raise_message_of( int who )
   {
      if( who == R::WHO_RAISE_MSG ) return "rmsg";
      if( who == 1 && g_errors == 1 ) return "custom message for n1";
      if( who == 1 && g_errors == 2 ) return "message B for n1";
      if( who == R::WHO_LIMIT_DEPTH ) return "maximum parser rule nesting depth exceeded";
      if( who == R::WHO_LIMIT_BYTES ) return "maximum allowed rule consumption reached";
      if( who == R::WHO_CHECK_BYTES ) return "maximum allowed rule consumption exceeded";
      return "parse error matching " + node_names[ who ];
   }

   inline const char* kind_name( int k )
   {
      static const char* n[] = { "OK", "FAIL", "RAISE", "HOLE_PARSE_ERROR", "HOLE_STD", "HOLE_X", "ACTION_X", "NESTED" };
      return n[ k ];
   }
   inline const char* real_name( int k )
   {
      static const char* n[] = { "failed", "ok", "parse_error", "HoleX", "HoleStd", "ActX", "fuel", "other" };
      return n[ k ];
   }

   // exact-size, terminator-less copy of the input bytes.  buf_mode 0: heap; 1: the byte after the input is in a
   // PROT_NONE page (end-aligned); 2: the byte before the input is in a PROT_NONE page (begin-aligned)  (DESIGN §2.6)
   inline int buf_mode = 0;
   struct GuardRegion
   {
      char* base = nullptr;
      size_t page = 4096;
      GuardRegion()
      {
         page = size_t( sysconf( _SC_PAGESIZE ) );
         base = static_cast< char* >( mmap( nullptr, 3 * page, PROT_READ | PROT_WRITE, MAP_PRIVATE | MAP_ANONYMOUS, -1, 0 ) );
         if( base == MAP_FAILED ) abort();
         mprotect( base, page, PROT_NONE );
         mprotect( base + 2 * page, page, PROT_NONE );
      }
   };
   inline GuardRegion& guard_region()
   {
      static GuardRegion g;
      return g;
   }
   struct Buf
   {
      char* p = nullptr;
      size_t n = 0;
      bool heap = false;
      explicit Buf( const std::string& s )
         : n( s.size() )
      {
         if( buf_mode == 0 ) {
            p = static_cast< char* >( malloc( s.size() ? s.size() : 1 ) );
            heap = true;
         }
         else {
            GuardRegion& g = guard_region();
            memset( g.base + g.page, 0x5a, g.page );
            p = ( buf_mode == 1 ) ? g.base + 2 * g.page - n : g.base + g.page;
         }
         memcpy( p, s.data(), s.size() );
      }
      ~Buf()
      {
         if( heap ) free( p );
      }
      Buf( const Buf& ) = delete;
   };
   // SIGSEGV / SIGBUS inside the implementation run = access outside the buffer (guard page)
   inline sigjmp_buf fault_jmp;
   inline volatile sig_atomic_t fault_armed = 0;
   inline void fault_handler( int )
   {
      if( fault_armed ) {
         fault_armed = 0;
         siglongjmp( fault_jmp, 1 );
      }
      _exit( 99 );
   }
   inline void install_fault_handler()
   {
      struct sigaction sa;
      memset( &sa, 0, sizeof sa );
      sa.sa_handler = fault_handler;
      sa.sa_flags = SA_NODEFER;
      sigaction( SIGSEGV, &sa, nullptr );
      sigaction( SIGBUS, &sa, nullptr );
   }

   // judge the implementation's outcome against the reference outcome; "" = agrees
   inline std::string judge( const R::Res& o, const Real& r, int M, const char* data, int eol_kind )
   {
      auto poscheck = [ & ]( size_t lo, size_t hi ) -> std::string {
         if( r.byte < g_ib ) return "error position byte below the initial byte counter";
         lo += g_ib;
         hi += g_ib;
         if( r.byte < lo || r.byte > hi ) return "error position byte " + std::to_string( r.byte ) + " outside [" + std::to_string( lo ) + "," + std::to_string( hi ) + "]";
         const R::Pos e = R::pos_of( data, int( r.byte - g_ib ), eol_kind );
         if( e.line != r.line || e.column != r.column ) return "error position line/column inconsistent with byte";
         const std::string w = "src:" + std::to_string( r.line ) + ":" + std::to_string( r.column ) + ": " + r.msg;
         if( w != r.what ) return "what() is not source:line:column: message";
         return "";
      };
      switch( o.k ) {
         case R::OK:
            if( r.kind != Real::OK ) return std::string( "reference matches, implementation: " ) + real_name( r.kind );
            if( r.pos != o.pos ) return "consumed " + std::to_string( r.pos ) + " bytes, reference " + std::to_string( o.pos );
            return "";
         case R::FAIL:
            if( r.kind != Real::FAILED ) return std::string( "reference fails locally, implementation: " ) + real_name( r.kind );
            if( M && r.pos != 0 ) return "local failure with rewind required left the cursor at " + std::to_string( r.pos );
            return "";
         case R::RAISE:
            if( r.kind != Real::PARSE_ERROR ) return std::string( "reference raises, implementation: " ) + real_name( r.kind );
            if( r.msg != raise_message_of( o.who ) ) return "raised '" + r.msg + "', reference '" + raise_message_of( o.who ) + "'";
            if( r.nested ) return "unexpected nested exception";
            return poscheck( size_t( o.lo ), size_t( o.hi ) );
         case R::HPE:
            if( r.kind != Real::PARSE_ERROR || r.msg != "hole" ) return std::string( "hole parse_error did not arrive unchanged: " ) + real_name( r.kind ) + " " + r.msg;
            return poscheck( size_t( o.lo ), size_t( o.lo ) );
         case R::HSTD:
            if( r.kind != Real::HOLE_STD || r.who != o.who ) return std::string( "foreign std exception did not arrive unchanged: " ) + real_name( r.kind );
            return "";
         case R::HX:
            if( r.kind != Real::HOLE_X || r.who != o.who ) return std::string( "foreign exception did not arrive unchanged: " ) + real_name( r.kind );
            return "";
         case R::AX:
            if( r.kind != Real::ACT_X || r.who != o.who ) return std::string( "action exception did not arrive unchanged: " ) + real_name( r.kind );
            return "";
         case R::NESTED: {
            if( r.kind != Real::PARSE_ERROR ) return std::string( "reference raises nested, implementation: " ) + real_name( r.kind );
            // raise_nested is not overridden by must_if<>::control: always the default message of the rule
            if( o.who == R::WHO_RAISE_MSG ) {  // a rule with an error_message of its own: that message, not the default one
               if( r.msg != "rmsg" ) return "nested raise names '" + r.msg + "', reference 'rmsg' (the rule's own error_message)";
            }
            else if( r.msg != "parse error matching " + node_names[ o.who ] )
               return "nested raise names '" + r.msg + "', reference 'parse error matching " + node_names[ o.who ] + "'";
            if( !r.nested ) return "raise_nested without nested exception";
            int nk = -1;
            switch( o.nk ) {
               case R::RAISE:
               case R::HPE:
               case R::NESTED: nk = Real::PARSE_ERROR; break;
               case R::HSTD: nk = Real::HOLE_STD; break;
               case R::HX: nk = Real::HOLE_X; break;
               case R::AX: nk = Real::ACT_X; break;
            }
            if( nk != r.nested_kind ) return "nested exception has the wrong type";
            return poscheck( size_t( o.lo ), size_t( o.lo ) );
         }
      }
      return "";
   }

   struct Case
   {
      int nrules = 0;
      std::string input;
      Cfg cfg;
      std::string flags;  // harness specific (hole/act menus etc.)
      std::string str( const std::string& choices ) const
      {
         return ser_tab( nrules ) + "|" + vf::hex( input ) + "|" + cfg.str() + "|" + choices + "|" + flags;
      }
   };

   // signature of the operators involved, for known-finding matching: root operator and the set of operators
   inline std::string ops_sig( int n )
   {
      std::string s = opinfo[ tab[ 0 ].op ].name;
      std::vector< std::string > v;
      for( int i = 1; i < n; ++i ) v.push_back( opinfo[ tab[ i ].op ].name );
      std::sort( v.begin(), v.end() );
      v.erase( std::unique( v.begin(), v.end() ), v.end() );
      for( auto& x : v ) s += "," + x;
      return s;
   }
   // the operator of the innermost offending rule, from a demangled rule type in a monitor message
   inline std::string strip_ns( std::string s )
   {
      for( const char* ns : { "tao::pegtl::internal::", "tao::pegtl::", "T::" } ) {
         size_t q;
         while( ( q = s.find( ns ) ) != std::string::npos ) s.erase( q, strlen( ns ) );
      }
      return s;
   }

}  // namespace PL
