#!/usr/bin/env python3
"""Run registered checks against a seeded change of /repo.

  python3 mutants.py run seeded/<id> [--checks C01,C02] [--tier quick]
  python3 mutants.py all [--tier quick]          (every seeded/*/ with its own meta.json 'property')

The patch is applied with `git -C /repo apply`, the checks are run, and the tree is restored with
`git -C /repo checkout -- .` in a finally block.  Results are written to seeded/<id>/result.json.
Nothing here is part of the registered checks; it is the tool used to demonstrate detection.
"""
import sys, os, json, subprocess, time

ROOT = os.path.dirname(os.path.abspath(__file__))
REPO = '/repo'


def sh(cmd, **kw):
    return subprocess.run(cmd, stdout=subprocess.PIPE, stderr=subprocess.STDOUT, text=True, **kw)


def clean():
    r = sh(['git', '-C', REPO, 'status', '--porcelain', '--untracked-files=no'])
    return r.stdout.strip() == ''


def run_isolated(d, checks, tier):
    """development mode: the change is applied in a scratch worktree of /repo's HEAD and the checks are pointed at it
    (VERIF_REPO), evidence and replays go to build/mut/<id>/ - /repo itself is not touched"""
    d = d.rstrip('/')
    mid = os.path.basename(d)
    meta_p = os.path.join(ROOT, d, 'meta.json')
    meta = json.load(open(meta_p)) if os.path.exists(meta_p) else {}
    if not checks:
        checks = meta.get('checks') or [meta.get('property')]
    wt = '/tmp/mutrepo_%s_%d' % (mid, os.getpid())
    out = os.path.join(ROOT, 'build', 'mut', mid)
    os.makedirs(out, exist_ok=True)
    sh(['git', '-C', REPO, 'worktree', 'add', '--detach', wt, 'HEAD'])
    res = {'tier': tier, 'mode': 'isolated worktree', 'checks': {}}
    try:
        a = sh(['git', '-C', wt, 'apply', os.path.join(ROOT, d, 'patch.diff')])
        if a.returncode != 0:
            print('patch does not apply:', a.stdout)
            return 2
        env = dict(os.environ, VERIF_REPO=wt, VERIF_OUT=out)
        for c in checks:
            t = time.time()
            r = sh([sys.executable, os.path.join(ROOT, 'verif.py'), 'check', c, '--tier', tier], cwd=ROOT, env=env)
            sigs = [l.strip() for l in r.stdout.splitlines() if l.strip().startswith('signature:')]
            res['checks'][c] = {'exit': r.returncode, 'wall_s': round(time.time() - t, 1), 'violations': r.stdout.count('VIOLATION property='),
                                'signatures': sorted(set(sigs))[:12], 'tail': r.stdout.strip().splitlines()[-1:]}
            with open(os.path.join(out, '%s_%s.log' % (c, tier)), 'w') as fh:
                fh.write(r.stdout)
            print('%s %s: exit %d, %d violation lines, %.0fs' % (mid, c, r.returncode, res['checks'][c]['violations'], time.time() - t), flush=True)
    finally:
        sh(['git', '-C', REPO, 'worktree', 'remove', '--force', wt])
    res['detected_by'] = [c for c, v in res['checks'].items() if v['exit'] == 1 and v['violations'] > 0]
    with open(os.path.join(out, 'result_%s.json' % tier), 'w') as fh:
        json.dump(res, fh, indent=1)
    return 0


def run_one(d, checks, tier):
    """the change is applied to /repo itself (git apply), the checks are run, /repo is restored (git checkout -- .);
    evidence and replays of these runs go to build/mut/<id>/ so that evidence/ keeps describing the unchanged tree"""
    d = d.rstrip('/')
    mid = os.path.basename(d)
    patch = os.path.join(ROOT, d, 'patch.diff')
    meta_p = os.path.join(ROOT, d, 'meta.json')
    meta = json.load(open(meta_p)) if os.path.exists(meta_p) else {}
    if not checks:
        checks = meta.get('checks') or [meta.get('property')]
    if not clean():
        print('refusing: /repo has local modifications')
        return 2
    out = os.path.join(ROOT, 'build', 'mut', mid)
    os.makedirs(out, exist_ok=True)
    res = {'tier': tier, 'mode': 'applied to /repo', 'head': sh(['git', '-C', REPO, 'log', '--format=%h', '-1']).stdout.strip(), 'checks': {}}
    a = sh(['git', '-C', REPO, 'apply', patch])
    if a.returncode != 0:
        print('patch does not apply:', a.stdout)
        return 2
    try:
        env = dict(os.environ, VERIF_OUT=out)
        for c in checks:
            t = time.time()
            r = sh([sys.executable, os.path.join(ROOT, 'verif.py'), 'check', c, '--tier', tier], cwd=ROOT, env=env)
            sigs = [l.strip()[len('signature: '):] for l in r.stdout.splitlines() if l.strip().startswith('signature:')]
            res['checks'][c] = {'exit': r.returncode, 'wall_s': round(time.time() - t, 1), 'violation_lines': r.stdout.count('VIOLATION property='),
                                'signatures': sorted(set(sigs))[:8], 'last_line': r.stdout.strip().splitlines()[-1:]}
            with open(os.path.join(out, 'repo_%s_%s.log' % (c, tier)), 'w') as fh:
                fh.write(r.stdout)
            print('%s %s: exit %d, %d violation lines, %.0fs' % (mid, c, r.returncode, res['checks'][c]['violation_lines'], time.time() - t), flush=True)
    finally:
        sh(['git', '-C', REPO, 'checkout', '--', '.'])
    res['detected_by'] = [c for c, v in res['checks'].items() if v['exit'] == 1 and v['violation_lines'] > 0]
    res['repo_clean_afterwards'] = clean()
    with open(os.path.join(ROOT, d, 'result.json'), 'w') as fh:
        json.dump(res, fh, indent=1)
    return 0


def main():
    a = sys.argv[1:]
    tier = 'quick'
    checks = []
    if '--tier' in a:
        tier = a[a.index('--tier') + 1]
    if '--checks' in a:
        checks = a[a.index('--checks') + 1].split(',')
    if a and a[0] == 'run':
        return run_one(a[1], checks, tier)
    if a and a[0] == 'iso':
        return run_isolated(a[1], checks, tier)
    if a and a[0] == 'all':
        sd = os.path.join(ROOT, 'seeded')
        for d in sorted(os.listdir(sd)):
            if os.path.exists(os.path.join(sd, d, 'patch.diff')):
                run_one(os.path.join('seeded', d), checks, tier)
        return 0
    print(__doc__)
    return 2


if __name__ == '__main__':
    sys.exit(main())
