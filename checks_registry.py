"""Registry: property id -> units (harness binaries), evidence texts.  See DESIGN.md §4."""

TM = 'checks/tmain.cpp'


def t_unit(name, space, extra=(), tier='quick'):
    return {'name': name, 'src': TM, 'flags': ['-DSPACE_' + space] + list(extra), 'opt': '-O0' if tier == 'quick' else '-O1'}


def u_core(t): return t_unit('t_core', 'CORE', tier=t)
def u_core4(t): return t_unit('t_core4', 'CORE4', tier=t)
def u_conv(t): return t_unit('t_conv', 'CONV', tier=t)
def u_exc(t, k): return t_unit('t_exc_ctl%d' % k, 'EXC', ['-DEXC_CTL=%d' % k], tier=t)
def u_act(t, k=0, lazy=0): return t_unit('t_act_ctl%d%s' % (k, '_lazy' if lazy else ''), 'ACT', ['-DACT_CTL=%d' % k, '-DACT_LAZY=%d' % lazy], tier=t)


EOLS = [('lf_crlf', 0), ('lf', 1), ('cr', 2), ('crlf', 3), ('cr_crlf', 4)]


def u_pos(t, eol, kind, lazy):
    return t_unit('t_pos_%s_%s' % (eol, 'lazy' if lazy else 'eager'), 'POS',
                  ['-DVERIF_TRACK=p::tracking_mode::%s' % ('lazy' if lazy else 'eager'), '-DVERIF_EOL=p::eol::%s' % eol,
                   '-DVERIF_EOL_KIND=%d' % kind, '-DPOS_LAZY=%d' % int(lazy)], tier=t)


def pos_units(t):
    return [u_pos(t, e, k, lz) for (e, k) in EOLS for lz in (0, 1)]


def u_atoms(t, lazy=0): return t_unit('t_atoms_%s' % ('lazy' if lazy else 'eager'), 'ATOMS', ['-DATOMS_LAZY=%d' % lazy], tier=t)


def u_limits(t): return t_unit('t_limits', 'LIMITS', tier=t)
def u_scopes(t): return t_unit('t_scopes', 'SCOPES', tier=t)


def u_tree(t, k): return t_unit('t_tree_sel%d' % k, 'TREE', ['-DTREE_SEL=%d' % k, '-DNDEBUG'], tier=t)


def plain_unit(name, src, tier, flags=(), opt='-O1', tier_arg=None):
    u = {'name': name, 'src': src, 'flags': list(flags), 'opt': opt}
    if tier_arg:
        u['tier_arg'] = tier_arg
    return u


T_ASSUME = [
    'the reference interpreter (engine/ref.hpp) is the PEG formalism / the documented expansions',
    'table-dispatched grammars behave like static grammars of named rules (T<->static conformance is checked under C01)',
    'bounds: see coverage.rule; nothing outside them is claimed',
]

CHECKS = {
    'C01': {
        'units': lambda t: [u_core(t)] + ([u_core4(t)] if t == 'thorough' else []),
        'extra': lambda pid, tier, agg, deadline: __import__('conf_check').run(pid, tier, agg, deadline),
        'rule': 'all canonical tables (rules numbered by first mention, all reachable, cyclic ones included) of <=3 named rules over '
                'seq sor seq3 sor3 star plus opt at not_at (+2-argument star/plus/opt/at/not_at) and any one not_one range string eof success failure, '
                'x all inputs over {a,b,c} of length <=4 (quick: two-rule tables over the full menu and three-rule tables over the unary/binary operators; thorough: three-rule tables over the full menu), x 16 configurations (4 void-action attachments x apply_mode x top-level rewind_mode); '
                'plus open tables with hole leaves (every answer function of an abstract sub-rule: succeed k / fail / fail-after-consuming under rewind optional). '
                'Oracle: reference PEG interpreter; divergent (table,input) pairs have no PEG result and are skipped. '
                'non-trivial = the derivation backtracks over consumed input or depends on environment answers; distinct by (table,input,answers,outcome)',
        'assumptions': T_ASSUME,
    },
    'C09': {
        'units': lambda t: [u_conv(t), u_atoms(t, 0)],
        'rule': 'every convenience rule of the statement (2- and 3-argument forms, all numeric bounds 0..4) as root over hole sub-rules, one level below '
                'each classical operator and above seq/sor/star/opt/not_at (holes over inputs of length 2..4, thorough 5), plus closed tables over {a,b} with inputs of length <=6 (thorough 7) and minus/rematch tables over {a,LF}; reference evaluates the documented expansion; '
                'both top-level rewind modes',
        'assumptions': T_ASSUME,
    },
    'C05': {
        'units': lambda t: [u_exc(t, 0), u_exc(t, 1), u_exc(t, 2), u_exc(t, 4), u_exc(t, 5), u_exc(t, 6), u_exc(t, 7), u_exc(t, 8), u_exc(t, 9), u_conv(t), dict(plain_unit('u_c05_names', 'units/c05_names.cpp', t, opt='-O0'), shards=1)],
        'rule': 'tables over must/if_must/if_must_else/opt_must/star_must/list_must/raise/raise_message/try_catch_* (8 variants) nested with the classical '
                'operators; holes may throw parse_error, a std::exception and a foreign type; actions may throw (deviation bounded); three control '
                'families plus two must_if tables (message table; explicit raise_on_failure), each over the monitor and over the plain normal control (std::terminate = the error did not reach the caller); oracle: exception identity, message, position interval, what(), nesting; default messages for rules whose printed name contains each of the 95 printable characters',
        'assumptions': T_ASSUME,
    },
    'C04': {
        'units': lambda t: [u_act(t, 0), u_act(t, 0, 1), u_core(t), u_conv(t), u_scopes(t)],
        'rule': 'tables over the classical operators plus enable/disable, action<>, apply/apply0/if_apply rules with void/bool apply/apply0 actions attached by rule id, eager and lazy inputs; every veto/throw '
                'decision function with <=2 (thorough 3) non-default answers; oracle: online span/enabledness check at every invocation, equality '
                'of the transactional action log with the reference derivation, and equality of the complete invocation log (backtracked invocations included) - the latter also over every convenience rule',
        'assumptions': T_ASSUME,
    },
    'C08': {
        'units': lambda t: [u_exc(t, 0), u_exc(t, 1), u_exc(t, 2), u_exc(t, 4), u_exc(t, 5), u_exc(t, 8), u_exc(t, 10), u_act(t, 0), u_act(t, 1), u_act(t, 2), u_tree(t, 0), t_unit('t_cov', 'COV', tier=t)],
        'rule': 'hook log of every execution of the exception and action spaces under three control families (with unwind, without unwind, all rules '
                'visible) is run through the protocol automaton start;(apply|apply0)?;(success|failure|unwind) with proper nesting; the real coverage<> facility on tables of '
                '<=3 rules with vetoing and throwing actions: start = success + failure + unwind for every rule and branch, and the per-rule counters equal the reference\'s number of attempts and outcomes, '
                'also when an exception escapes coverage()',
        'assumptions': T_ASSUME,
    },
    'C03': {
        'units': lambda t: [u_atoms(t, 0), u_atoms(t, 1), u_conv(t), u_core(t), u_limits(t), plain_unit('u_c03g', 'units/c03g.cpp', t), plain_unit('u_c10', 'units/c10.cpp', t),
                            plain_unit('u_c07buf', 'buf/c07_buffer.cpp', t)] + [dict(u_pos(t, e, k, 0), shards=8) for (e, k) in EOLS if e in ('cr', 'crlf', 'cr_crlf')],
        'rule': 'every library atom (ascii convenience rules, integer rules, raw_string, predicates, utf8::any, eol family, istring, bytes, everything) as root and '
                'one level below each classical operator, all inputs over a per-family alphabet (length <=4..6) plus boundary numerals, on terminator-less '
                'buffers with a PROT_NONE page directly after the input (pass 1) and directly before it (pass 2), eager and lazy; nested windows (rematch, minus) '
                'from the convenience space; oracle: no guard-page fault, no peek_char(offset)/bump(count) reaching the end of the current window '
                '(TAO_PEGTL_VERIF hook), cursor <= end at every rule entry/exit; byte-limited windows (limit_bytes at every offset) from the limits space; shipped grammars '
                '(http incl. chunked bodies with extreme chunk sizes, json, uri, iri): all token strings of length <=4 (thorough 5) over per-grammar alphabets, guard page after / before, '
                'eager / lazy; code-unit rules (utf8/16/32, uintN) with all truncations on guard-paged buffers (units of C10); the eol family of the policies cr, crlf, cr_crlf '
                '(position space of C06, whose nested rematch windows end inside a larger buffer); the memory-safety invariants of the buffer_input state-space search (C07 unit)',
        'assumptions': T_ASSUME + ['reads through std::memcmp on current() are only seen by the guard page, i.e. for windows that end at the physical end of the buffer'],
    },
    'C18': {
        'units': lambda t: [u_limits(t)],
        'rule': 'limit_bytes<n> (n in 1,2,3) and check_bytes<1> attached by rule id to greedy, look-ahead, failing and raising rules that start at every offset '
                '(tables of <=3 rules over the classical operators, must, until, bytes<2>, everything, string), all inputs over {a,b} of length <=5 (thorough 6) on '
                'guard-paged buffers, with default and non-default initial byte/line/column counters; limit_depth<N> (N in 1,2) on every rule of recursive tables; oracle: reference evaluates the guarded rule inside the window '
                '[start, start+n) / with a depth counter; after every outcome current_depth()==0 and end() is the original end; no peek/bump beyond the window',
        'assumptions': T_ASSUME,
    },
    'C13': {
        'units': lambda t: [u_scopes(t)],
        'rule': 'tables of <=4 rules over the classical operators, state<S,...>, enable, disable with change_state / change_states / change_action / '
                'change_action_and_state(s) / change_control / enable_action / disable_action attached by rule id (7 attachment families, every change_action* variant also over a rule whose entry in the '
                'family switched to is itself a switch), states constructed from the input and default-constructed ones; all inputs over {a,b} '
                'of length <=2 (thorough 3); apply_mode action and nothing; oracle: exact equality of the state constructor/success/destructor log (instance ids, '
                'cursor, outer state), of the surviving action log (family, span, state instance seen) and of the control seen by every rule attempt with a '
                'lexical scoping model',
        'assumptions': T_ASSUME,
    },
    'C11': {
        'custom': lambda pid, tier, deadline: __import__('c11_check').check(pid, tier, deadline),
        'engine': 'table-engine + static generator',
        'rule': 'family (i): every operator that has analyze_traits (classical, convenience 2- and 3-argument, numeric repetitions, try_catch_*, enable/disable/state/action/control, '
                'raw_string with a content rule, separated_seq, if_then) over itself at every child position with the other positions filled from {one, opt<one>, at<one>, failure, eof}; '
                'family (ii): indirect recursion - three-rule tables over the classical operators; thorough adds every ordered pair of the full unary/binary menu as two-rule tables; family (iii): every repetition over the atoms whose traits say "consumes" by fiat (rep_one_min_max, maximum_rule, unsigned_rule, raw_string); family (iv): seq/sor of two repetitions whose anonymous sub-rules have printed names that agree up to a character special in type printouts ( ; ] = , > \' ), one consuming, one nullable; every table is compiled as an ordinary '
                'static grammar and analyze<G>(-1) is asked; a loop witness is an input over {a,b,[} of length <=3 on which the reference re-enters the same (rule, position) or a repetition '
                'body succeeds without progress, confirmed by the fuel-limited real run not terminating - or on which the real run does not terminate although the reference does; violation = zero problems reported and a confirmed witness',
        'assumptions': T_ASSUME + ['witnesses are limited to inputs of length <=3 over {a,b,[,8}: every enumerated rule consumes at most one byte per step, so shorter witnesses exist whenever any does'],
        'technique': 'exhaustive enumeration of ill-formed grammar families; static analysis result of each compared with loop witnesses found by bounded exhaustive execution',
    },
    'C12': {
        'units': lambda t: [dict(u_tree(t, k), shards=4) for k in range(7)],
        'extra': lambda pid, tier, agg, deadline: __import__('c12_static').run(pid, tier, agg, deadline),
        'rule': 'tables of <=3 rules over the classical operators, must and try_catch_*_return_false with throwing actions (aborted branches the run survives) '
                'and open tables with throwing holes, all inputs over {a,b} of length <=5 (thorough 6), through parse_tree::parse with 7 selector/transformer '
                'variants (all, even ids, odd ids, fold_one, discard_empty, remove_content+fold_one, none); oracle: tree returned iff the parse succeeds; '
                'flattened (type, begin, end, depth) sequence equals the surviving derivation of the reference with the transformers applied as documented; '
                'node positions follow the prefix formula; compile-time leaf optimisation: static chains of depth 1..12 with every selection of <=2 chain rules under an alternative that '
                'matches the chain and then fails; selector projection: for every operator of the static generator with children from {S,T} inside sor< seq< L, eof >, star< sor< S, T > > >, 15 inputs, '
                'all 8 selections of {L,S,T}: tree(selection) equals the projection of tree(everything selected); the user control handed to parse_tree (fixed-arity unwind, must_if table) '
                'sees a balanced protocol for every selected rule',
        'assumptions': T_ASSUME + ['node::subs_t of table rules lists all rules, so the compile-time leaf optimisation is exercised separately on static grammars'],
    },
    'C14': {
        'units': lambda t: [plain_unit('u_c14', 'units/c14.cpp', t)],
        'engine': 'unit-domain',
        'rule': 'all token strings over a 57-token JSON alphabet (structural characters, escapes, literal prefixes, number pieces, whitespace, control bytes, valid / overlong / surrogate / '
                'truncated / out-of-range UTF-8 units) of length <=4 (thorough 5) and longer ones over reduced alphabets; all byte strings "b1..bk" for k<=3; all single (thorough: double) token '
                'edits of 35 valid documents; oracle: independent set-valued recogniser for RFC 8259 + RFC 3629 (lang/json_ref.hpp); any exception is a violation; each case is repeated with a '
                'poison tail behind the end',
        'assumptions': ['lang/json_ref.hpp is RFC 8259 (cross-checked against python json on 25M strings during development)'],
        'technique': 'exhaustive enumeration of bounded token strings on the real grammar against an independent language-exact recogniser',
    },
    'C20': {
        'units': lambda t: [plain_unit('u_c20', 'units/c20.cpp', t)],
        'engine': 'unit-domain',
        'rule': 'all strings of length <=5 (thorough 6) over 22 character-class representatives against URI, URI-reference, absolute-URI, IPv4address, IPv6address; dotted octet-token strings in 6 '
                'contexts; IPv6 token strings of <=8 (thorough 9) tokens; single (thorough: double) byte edits of 88 RFC corpus strings; oracle: set-valued (full backtracking) transcription of '
                'RFC 3986 Appendix A (lang/uri_ref.hpp); parse_error counts as reject, any other exception is a violation',
        'assumptions': ['lang/uri_ref.hpp is RFC 3986 Appendix A (cross-checked against a regex reference on 1.5M strings during development)'],
        'technique': 'exhaustive enumeration of bounded strings on the real grammar against an independent language-exact matcher',
    },
    'C07': {
        'units': lambda t: [{'name': 't_diff', 'src': 'checks/tdiff.cpp', 'flags': ['-DNDEBUG'], 'opt': '-O0' if t == 'quick' else '-O1'},
                            plain_unit('u_c07buf', 'buf/c07_buffer.cpp', t)] +
                           ([{'name': 'u_c07buf_asan', 'src': 'buf/c07_buffer.cpp', 'flags': ['-g', '-fsanitize=address,undefined', '-fno-sanitize-recover=undefined'], 'opt': '-O1',
                              'cxx': 'clang++', 'env': {'ASAN_OPTIONS': 'detect_leaks=0'}}] if t == 'thorough' else []),
        'engine': 'table-engine + buffer_input state-space search',
        'rule': '(a) explicit-state breadth-first search of the real buffer_input: Chunk {1,2,3} x maximum 1..4 (thorough 1..5) (+ Chunk 64), streams of 0..8 (thorough 10) bytes with an optional LF, '
                'operations require/size/end(k<=5), empty, bump*, discard (only without a held mark), mark/restore/drop on real rewind guards, every legal reader answer (1..request bytes, 0 only at '
                'the end) - to the fixpoint of canonical states; invariants after every operation: window bytes equal the stream, position formula, buffer accounting, reader never asked to write '
                'outside the allocation, require/size postconditions, overflow_error only when the request cannot fit; thorough repeats it under ASan+UBSan; '
                '(b) differential runs: every table program of <=2 rules (classical operators, must, eol, bytes<2>, require<2>) under three discard-bearing wrappers, all inputs over {a,b,LF} of '
                'length <=4 (thorough 5), through eager/lazy memory_input, string_input, argv_input, read_input, mmap_input, file_input, istream_input, cstream_input and buffer_input with Chunk '
                '1/2/64 and every read-size pattern with <=2 (thorough 3) short reads; oracle: result, consumed bytes, action trace with positions and error identical to the eager memory_input run, '
                'or std::overflow_error when (and only when) the buffer maximum is smaller than the input (std::terminate = the error could not reach the caller); a byte-class round with NUL bytes, '
                'complete and truncated 2-4 byte UTF-8 sequences and istring at every offset relative to the buffer boundaries',
        'assumptions': T_ASSUME + ['files of page-boundary sizes (0, 1, page-1, page, page+1, 2 pages, 2 pages+1) are exercised with one grammar (seq<star<one<a>>,eof>) through read/mmap/file_input'],
        'technique': 'explicit-state model checking of buffer_input (BFS over operation x reader-answer histories on the real object) plus exhaustive differential exploration of input classes',
    },
    'C10': {
        'units': lambda t: [plain_unit('u_c10', 'units/c10.cpp', t)],
        'engine': 'unit-domain',
        'rule': '625 rule instantiations; ASCII/abnf classes and one/not_one/range/not_range/ranges: all 0-, 1- and 2-byte inputs; istring/string: every byte at every position and all truncations; '
                'UTF-8: all sequences of length 0-3 x 22 rules, utf8::any on all 2^32 four-byte windows (quick too), core battery on all 2^32 windows (thorough); UTF-16 be/le: all units x boundary '
                'second units and all surrogate-first pairs (thorough: all 2^32 pairs); UTF-32 be/le: boundary-structured values and 0..0x1100FF (thorough: all 2^32); uint8/16: all values x 7 masks '
                'x 13+49 rules, uint32/64: byte-boundary structured values (thorough: all 2^32 uint32 values), all truncations; exact-size inputs ending at a PROT_NONE page; oracle: independent '
                'RFC 3629 / RFC 2781 / Unicode D76 decoders and sets transcribed from doc/Rule-Reference.md',
        'assumptions': ['oracle tables in units/c10.cpp; UTF-16/32 and binary rules line/column counting out of scope as documented'],
        'technique': 'exhaustive enumeration of code-unit domains on the real rules against independent decoders',
    },
    'C17': {
        'units': lambda t: [plain_unit('u_c17', 'units/c17.cpp', t)],
        'engine': 'unit-domain',
        'rule': 'utf8_append_utf32 for all 2^32 values; unhex_char/unhex_string over all hex strings up to the width of 8/16-bit targets and boundary strings for wider ones; unescape_x all digit '
                'pairs; unescape_u all \\uXXXX spellings and \\U for 0..0x11FFFF; unescape_j all sequences of 1-3 escapes over 18 boundary spellings, all surrogate x surrogate pairs (thorough: all '
                '2^32 pairs); unescape_c 3 tables x 256 characters; JSON string and the test grammar over piece sequences; oracle: independent RFC 3629 encoder and UTF-16 transcoder',
        'assumptions': ['oracle functions in units/c17.cpp'],
        'technique': 'exhaustive enumeration of code points / escape sequences on the real helpers against an independent encoder',
    },
    'C15': {
        'units': lambda t: [plain_unit('u_c15', 'units/c15.cpp', t)],
        'engine': 'unit-domain',
        'rule': 'all digit strings up to one digit beyond the width for 8/16-bit targets (length <=4 / <=6, thorough 5 / 7), boundary neighbourhoods (limit +-2 (thorough +-100), powers of ten '
                '+-1, with a digit appended / prepended / replaced) for 32/64-bit, x sign {none,+,-} (plus malformed prefixes) x trailer {end, letter, punctuation, NUL, 0xb0}, '
                'for 383 rule/action/type/Maximum families (unsigned_rule, signed_rule, *_with_action, maximum_rule<T,Max> ... for 8 integer types and 16-19 Maximum values); '
                'direct and inside seq<R,eof> / seq<R,one<x>>; oracle: syntax and exact value by unsigned __int128 arithmetic, overflow reported the documented way',
        'assumptions': ['oracle functions orc_* in units/c15.cpp, written from the header comments and doc/Contrib-and-Examples.md'],
        'technique': 'exhaustive enumeration of numerals x configurations on the real code against arbitrary-precision arithmetic',
    },
    'C16': {
        'units': lambda t: [plain_unit('u_c16', 'units/c16.cpp', t)],
        'engine': 'unit-domain',
        'rule': 'all strings over {Open, Marker, Close, LF, CR, x} of length <=10 (thorough 12) for raw_string<[,=,]>, with a content rule, and with custom characters; length <=8 (thorough 10) for '
                'the other four eol policies, lazy tracking and content rules that reject a line ending (not_one<LF> / not_one<CR>, eager and lazy); an all-levels family (levels 0..40, thorough 0..300) x content templates x tails; three parse runs each (action/required, '
                'action/optional, no action); oracle: independent Lua long-bracket scanner (result, consumed, content span, one action call, cursor restored on failure)',
        'assumptions': ['oracle functions orc_* in units/c16.cpp, written from the Lua manual text'],
        'technique': 'exhaustive enumeration of bracket strings on the real code against an independent scanner',
    },
    'C19': {
        'units': lambda t: [plain_unit('u_c19', 'units/c19.cpp', t, tier_arg='thorough')],
        'engine': 'unit-domain',
        'rule': 'all inputs over {a, LF, CR} of length <=8 x 5 eol policies x eager/lazy x 5 initial-counter settings ((0,1,1) (7,3,5) (7,1,1) (0,3,1) (0,1,5)) x every '
                'position 0..size obtained by bump, from a parse_error, through the policy\'s own eol rule, by asking for an earlier point after later positions were taken, and in a second run after restart(); oracle: all returned pointers inside [begin,end]; '
                'at(p) is the byte at p; begin_of_line/end_of_line/line_at equal an independent line splitter on inputs where "line" is unambiguous for the policy; '
                'eager and lazy agree',
        'assumptions': ['independent splitter in units/c19.cpp; for cr_crlf both readings of where the LF of a CR LF pair belongs are accepted (documented in the source)'],
        'technique': 'exhaustive enumeration of inputs x positions x configurations on the real code against an independent line splitter',
    },
    'C06': {
        'units': lambda t: [dict(u, shards=8) for u in pos_units(t)] + [plain_unit('u_c03g', 'units/c03g.cpp', t)],
        'rule': 'tables (<=3 rules) over seq sor star plus opt at not_at until(1,2) and the newline-capable atoms any one<LF> one<CR> not_one range<0,127> '
                'string<CR,LF> eol eolf bytes<2> everything utf8::any bof bol eof; all inputs over {a, LF, CR, 0xC3, 0xA9} of length <=4 (thorough 5); '
                '10 input types {lf,cr,crlf,lf_crlf,cr_crlf} x {eager,lazy}; initial counters (0,1,1) and (7,3,5); both rewind modes; oracle: in.position() '
                'at every Control<Rule>::match entry/exit, every action input and every parse_error equals the prefix formula; eager and lazy are compared '
                'through the common formula; one class rule per way of choosing bump() vs bump_in_this_line() (packs with the eol character first/last, even/odd packs, string, istring, '
                'utf8:: and uint8:: forms, masked comparisons); final position of the shipped grammars (http chunk payloads containing line ends, json, uri) on all token strings',
        'assumptions': T_ASSUME + ['UTF-16/32 and multi-byte binary rules excluded as documented by the library'],
    },
    'C02': {
        'units': lambda t: [u_core(t), u_conv(t), u_exc(t, 0), u_act(t, 0), u_atoms(t, 0), u_atoms(t, 1), plain_unit('u_c15', 'units/c15.cpp', t), plain_unit('u_c16', 'units/c16.cpp', t),
                            plain_unit('u_c03g', 'units/c03g.cpp', t)],
        'rule': 'cursor (pointer, byte, line, column) compared before/after every Control<Rule>::match invocation, internal rules included, in every '
                'execution of the core, convenience, exception and action spaces',
        'assumptions': T_ASSUME,
    },
}

T_NT = (' | non-trivial = an execution whose derivation backtracks over consumed input, ends in an exception, or depends on environment answers '
        '(hole / action / reader decisions); distinct = by (table, input, decisions, outcome), counted by hashing (capped at 4 million per shard)')
for _pid in ('C02', 'C03', 'C04', 'C05', 'C06', 'C08', 'C09', 'C12', 'C13', 'C18'):
    CHECKS[_pid]['rule'] += T_NT

NOT_YET = {}
HOOK_COMMITS = ['d382928']
ENGINES = [
    {'name': 'table-engine', 'path': 'engine/t.hpp engine/ref.hpp engine/pipeline.hpp checks/tmain.cpp checks/spaces.hpp',
     'serves_properties': ['C01', 'C02', 'C04', 'C05', 'C08', 'C09'],
     'kind_free_text': 'run-time tables over the real PEGTL rule templates + stateless DFS explorer over hole/action answers + reference PEG interpreter'},
]
