"""C12, compile-time side: parse_tree's leaf optimisation (is_leaf< 8, ... >) decides at compile time which unselected
rules may skip all tree bookkeeping.  Table rules cannot reach it (their subs_t lists every rule), so static chains are
generated:   root : sor< seq< c1, one<'x'> >, seq< c1, one<'b'> > >,   c_i : seq< c_{i+1} > ... c_D : one<'a'>
for every depth D in 1..12 and every selection of at most two chain rules (plus none / all), input "ab":
the first alternative matches the whole chain and then fails (its nodes must vanish), the second survives.
Expected tree: the selected chain rules, nested in chain order, each spanning [0,1), exactly once."""
import os, sys, json, hashlib, subprocess, itertools, concurrent.futures as cf
import verif as V

HEADER = '''#include <tao/pegtl.hpp>
#include <tao/pegtl/contrib/parse_tree.hpp>
#include <cstdio>
#include <string>
using namespace tao::pegtl;
template< typename Rule > struct sel : std::false_type {};
static const char* g_b;
static void dump( const parse_tree::node& n, int depth, std::string& out ) {
   for( const auto& c : n.children ) {
      std::string t( c->type );
      const auto q = t.rfind( "::" );
      if( q != std::string::npos ) t = t.substr( q + 2 );
      out += std::string( size_t( depth ), '.' ) + t + "[" + std::to_string( c->m_begin.data - g_b ) + "," + std::to_string( c->has_content() ? c->m_end.data - g_b : -1 ) + ") ";
      dump( *c, depth + 1, out );
   }
}
template< typename G > void run( int k ) {
   const std::string s = "ab";
   g_b = s.data();
   memory_input<> in( s.data(), s.data() + s.size(), "src" );
   std::string out;
   try { auto root = parse_tree::parse< G, sel >( in ); if( root ) dump( *root, 0, out ); else out = "<no tree>"; }
   catch( const std::exception& e ) { out = std::string( "<exception> " ) + e.what(); }
   std::printf( "%d\\t%s\\n", k, out.c_str() );
}
'''


def cases():
    out = []
    for D in range(1, 13):
        idx = list(range(1, D + 1))
        sels = [()] + [(i,) for i in idx] + [c for c in itertools.combinations(idx, 2)] + [tuple(idx)]
        for s in sorted(set(sels)):
            out.append((D, s))
    return out


def source(batch):
    parts = [HEADER]
    for k, (D, selset) in batch:
        ns = 'g%d' % k
        parts.append('namespace %s {' % ns)
        for i in range(1, D + 1):
            parts.append('struct c%d;' % i)
        for i in range(1, D):
            parts.append('struct c%d : seq< c%d > {};' % (i, i + 1))
        parts.append("struct c%d : one< 'a' > {};" % D)
        parts.append("struct root : sor< seq< c1, one< 'x' > >, seq< c1, one< 'b' > > > {};")
        parts.append('}')
        for i in selset:
            parts.append('template<> struct sel< %s::c%d > : std::true_type {};' % (ns, i))
    parts.append('int main() {')
    for k, _ in batch:
        parts.append('  run< g%d::root >( %d );' % (k, k))
    parts.append('  return 0; }')
    return '\n'.join(parts)


def expected(D, selset):
    return ''.join('.' * d + 'c%d[0,1) ' % i for d, i in enumerate(sorted(selset)))


# ---- shape 2: an exception passes through selected / unselected rules and is caught; a later alternative survives
#   X : one<'x'>   P : seq< one<'a'>, must< one<'b'> > >   W : seq< P >   Q : seq< one<'a'>, one<'c'> >
#   G : seq< X, sor< try_catch_return_false< W >, Q >, eof >      input "xac"
# every selection of { G, X, W, P, Q }: expected = the selected ones of G[0,3) { X[0,1) Q[1,3) }; W and P never survive
SHAPE2 = ['G', 'X', 'W', 'P', 'Q']


def cases2():
    out = []
    for r in range(len(SHAPE2) + 1):
        for c in itertools.combinations(SHAPE2, r):
            out.append(c)
    return out


def source2(batch):
    parts = [HEADER.replace('const std::string s = "ab";', 'const std::string s = "xac";')]
    for k, selset in batch:
        ns = 'h%d' % k
        parts.append("namespace %s { struct X : one< 'x' > {}; struct P : seq< one< 'a' >, must< one< 'b' > > > {}; struct W : seq< P > {}; struct Q : seq< one< 'a' >, one< 'c' > > {};"
                     " struct G : seq< X, sor< try_catch_return_false< W >, Q >, eof > {}; }" % ns)
        for n in selset:
            parts.append('template<> struct sel< %s::%s > : std::true_type {};' % (ns, n))
    parts.append('int main() {')
    for k, _ in batch:
        parts.append('  run< h%d::G >( %d );' % (k, k))
    parts.append('  return 0; }')
    return '\n'.join(parts)


def expected2(selset):
    d = 0
    out = ''
    if 'G' in selset:
        out += 'G[0,3) '
        d = 1
    if 'X' in selset:
        out += '.' * d + 'X[0,1) '
    if 'Q' in selset:
        out += '.' * d + 'Q[1,3) '
    return out


def _run(batch, shape=1):
    text = source(batch) if shape == 1 else source2(batch)
    h = hashlib.sha256()
    h.update(V.tree_hash().encode())
    h.update(text.encode())
    key = h.hexdigest()[:24]
    cdir = os.path.join(V.BUILD, 'c12s')
    os.makedirs(cdir, exist_ok=True)
    cache = os.path.join(cdir, key + '.out')
    if not os.path.exists(cache):
        src, binp = os.path.join(cdir, key + '.cpp'), os.path.join(cdir, key + '.bin')
        open(src, 'w').write(text)
        r = subprocess.run([V.CXX, '-std=c++17', '-O0', '-w', '-DNDEBUG', '-I', os.path.join(V.REPO, 'include'), src, '-o', binp], stdout=subprocess.PIPE, stderr=subprocess.STDOUT, text=True)
        if r.returncode != 0:
            raise RuntimeError('static chain batch failed to compile:\n' + r.stdout[-3000:])
        out = subprocess.run([binp], stdout=subprocess.PIPE, text=True).stdout
        open(cache + '.tmp', 'w').write(out)
        os.rename(cache + '.tmp', cache)
        os.remove(binp)
        os.remove(src)
    return open(cache).read()


def run(pid, tier, agg, deadline):
    cs = list(enumerate(cases()))
    B = 40
    batches = [cs[i:i + B] for i in range(0, len(cs), B)]
    bad = 0
    with cf.ThreadPoolExecutor(V.NCPU) as ex:
        for out in ex.map(_run, batches):
            for line in out.splitlines():
                k, got = line.split('\t')
                D, selset = cs[int(k)][1]
                want = expected(D, selset)
                if got != want:
                    bad += 1
                    sig = 'C12|static chain: tree differs from the selected rules of the surviving alternative'
                    agg.viol_by_sig[sig] = agg.viol_by_sig.get(sig, 0) + 1
                    if sum(1 for v in agg.vlines if v[1] == sig) < 3:
                        agg.vlines.append(('static', sig, {'chain_depth': D, 'selected': list(selset), 'expected': want, 'observed': got}))
    cs2 = list(enumerate(cases2()))
    for line in _run(cs2, 2).splitlines():
        k, got = line.split('\t')
        selset = cs2[int(k)][1]
        want = expected2(selset)
        if got != want:
            bad += 1
            sig = 'C12|static grammar with a caught exception: tree differs from the selected rules of the surviving alternative'
            agg.viol_by_sig[sig] = agg.viol_by_sig.get(sig, 0) + 1
            if sum(1 for v in agg.vlines if v[1] == sig) < 3:
                agg.vlines.append(('static', sig, {'selected': list(selset), 'expected': want, 'observed': got}))
    agg.evaluations += len(cs) + len(cs2)
    agg.counters['static.caught_exception_selections'] = len(cs2)
    agg.counters['static.leaf_optimisation_chains'] = len(cs)
    agg.counters['static.leaf_optimisation_mismatches'] = bad
    agg.samples.append({'unit': 'static', 'case': {'chain_depth': 9, 'selected': [2, 9], 'expected_tree': expected(9, (2, 9))}})
