"""C12, compile-time side: parse_tree's leaf optimisation (is_leaf< 8, ... >) decides at compile time which unselected
rules may skip all tree bookkeeping.  Table rules cannot reach it (their subs_t lists every rule), so static chains are
generated:   root : sor< seq< c1, one<'x'> >, seq< c1, one<'b'> > >,   c_i : seq< c_{i+1} > ... c_D : one<'a'>
for every depth D in 1..12 and every selection of at most two chain rules (plus none / all), input "ab":
the first alternative matches the whole chain and then fails (its nodes must vanish), the second survives.
Expected tree: the selected chain rules, nested in chain order, each spanning [0,1), exactly once."""
import os, sys, json, hashlib, subprocess, itertools, concurrent.futures as cf
import verif as V

HEADER = '''#include <tao/pegtl.hpp>
#include <tao/pegtl/contrib/parse_tree.hpp>
#include <cstdio>
#include <string>
using namespace tao::pegtl;
template< typename Rule > struct sel : std::false_type {};
static const char* g_b;
static void dump( const parse_tree::node& n, int depth, std::string& out ) {
   for( const auto& c : n.children ) {
      std::string t( c->type );
      const auto q = t.rfind( "::" );
      if( q != std::string::npos ) t = t.substr( q + 2 );
      out += std::string( size_t( depth ), '.' ) + t + "[" + std::to_string( c->m_begin.data - g_b ) + "," + std::to_string( c->has_content() ? c->m_end.data - g_b : -1 ) + ") ";
      dump( *c, depth + 1, out );
   }
}
template< typename G > void run( int k ) {
   const std::string s = "ab";
   g_b = s.data();
   memory_input<> in( s.data(), s.data() + s.size(), "src" );
   std::string out;
   try { auto root = parse_tree::parse< G, sel >( in ); if( root ) dump( *root, 0, out ); else out = "<no tree>"; }
   catch( const std::exception& e ) { out = std::string( "<exception> " ) + e.what(); }
   std::printf( "%d\\t%s\\n", k, out.c_str() );
}
'''


def cases():
    out = []
    for D in range(1, 13):
        idx = list(range(1, D + 1))
        sels = [()] + [(i,) for i in idx] + [c for c in itertools.combinations(idx, 2)] + [tuple(idx)]
        for s in sorted(set(sels)):
            out.append((D, s))
    return out


def source(batch):
    parts = [HEADER]
    for k, (D, selset) in batch:
        ns = 'g%d' % k
        parts.append('namespace %s {' % ns)
        for i in range(1, D + 1):
            parts.append('struct c%d;' % i)
        for i in range(1, D):
            parts.append('struct c%d : seq< c%d > {};' % (i, i + 1))
        parts.append("struct c%d : one< 'a' > {};" % D)
        parts.append("struct root : sor< seq< c1, one< 'x' > >, seq< c1, one< 'b' > > > {};")
        parts.append('}')
        for i in selset:
            parts.append('template<> struct sel< %s::c%d > : std::true_type {};' % (ns, i))
    parts.append('int main() {')
    for k, _ in batch:
        parts.append('  run< g%d::root >( %d );' % (k, k))
    parts.append('  return 0; }')
    return '\n'.join(parts)


def expected(D, selset):
    return ''.join('.' * d + 'c%d[0,1) ' % i for d, i in enumerate(sorted(selset)))


# ---- shape 2: an exception passes through selected / unselected rules and is caught; a later alternative survives
#   X : one<'x'>   P : seq< one<'a'>, must< one<'b'> > >   W : seq< P >   Q : seq< one<'a'>, one<'c'> >
#   G : seq< X, sor< try_catch_return_false< W >, Q >, eof >      input "xac"
# every selection of { G, X, W, P, Q }: expected = the selected ones of G[0,3) { X[0,1) Q[1,3) }; W and P never survive
SHAPE2 = ['G', 'X', 'W', 'P', 'Q']


def cases2():
    out = []
    for r in range(len(SHAPE2) + 1):
        for c in itertools.combinations(SHAPE2, r):
            out.append(c)
    return out


def source2(batch):
    parts = [HEADER.replace('const std::string s = "ab";', 'const std::string s = "xac";')]
    for k, selset in batch:
        ns = 'h%d' % k
        parts.append("namespace %s { struct X : one< 'x' > {}; struct P : seq< one< 'a' >, must< one< 'b' > > > {}; struct W : seq< P > {}; struct Q : seq< one< 'a' >, one< 'c' > > {};"
                     " struct G : seq< X, sor< try_catch_return_false< W >, Q >, eof > {}; }" % ns)
        for n in selset:
            parts.append('template<> struct sel< %s::%s > : std::true_type {};' % (ns, n))
    parts.append('int main() {')
    for k, _ in batch:
        parts.append('  run< h%d::G >( %d );' % (k, k))
    parts.append('  return 0; }')
    return '\n'.join(parts)


def expected2(selset):
    d = 0
    out = ''
    if 'G' in selset:
        out += 'G[0,3) '
        d = 1
    if 'X' in selset:
        out += '.' * d + 'X[0,1) '
    if 'Q' in selset:
        out += '.' * d + 'Q[1,3) '
    return out


# ---- shape 3: selector projection.  For every operator O of the static generator and every assignment of its child
# positions from { S : one<'a'>, T : one<'b'> }:   L : O< ... >,   G : sor< seq< L, eof >, star< sor< S, T > > >
# on every input over {a,b} of length <= 3 and under every selection of { L, S, T } (8 selectors; G stays unselected): the tree
# obtained with a selection must be the projection (unselected nodes removed, their children lifted) of the tree obtained with
# all three rules selected.  With everything selected no named rule is leaf-optimised, so a wrong subs_t / is_leaf decision for the
# operator behind L (nodes of a failed or backtracked L leaking into the parent) shows as a difference.
sys.path.insert(0, os.path.join(V.ROOT, 'gen'))
import static_gen as SG

HEADER3 = SG.HEADER + '''#include <tao/pegtl/contrib/parse_tree.hpp>
#include <string>
using namespace tao::pegtl;
template< typename R > struct idx { static constexpr int v = -1; };
template< int Mask > struct selm { template< typename R > struct type : std::bool_constant< ( idx< R >::v >= 0 ) && ( ( ( Mask >> ( idx< R >::v < 0 ? 0 : idx< R >::v ) ) & 1 ) != 0 ) > {}; };
static long fuel3;
struct Fuel3 {};
template< typename Rule > struct fuelctl : normal< Rule > { template< typename In, typename... St > static void start( const In&, St&&... ) { if( --fuel3 < 0 ) throw Fuel3{}; } };
static const char* g_b;
static void dump( const parse_tree::node& n, int depth, std::string& out ) {
   for( const auto& c : n.children ) {
      std::string t( c->type );
      const auto q = t.rfind( "::" );
      if( q != std::string::npos ) t = t.substr( q + 2 );
      out += std::string( size_t( depth ), '.' ) + t + "[" + std::to_string( c->m_begin.data - g_b ) + "," + std::to_string( c->has_content() ? c->m_end.data - g_b : -1 ) + ") ";
      dump( *c, depth + 1, out );
   }
}
template< typename G, int Mask > void run1( int k, const std::string& s ) {
   g_b = s.data();
   memory_input<> in( s.data(), s.data() + s.size(), "src" );
   std::string out;
   fuel3 = 2000;
   try { auto root = parse_tree::parse< G, selm< Mask >::template type, nothing, fuelctl >( in ); if( root ) dump( *root, 0, out ); else out = "<no tree>"; }
   catch( const Fuel3& ) { out = "<fuel>"; }
   catch( const parse_error& ) { out = "<parse_error>"; }
   catch( ... ) { out = "<exception>"; }
   std::printf( "%d\\t%s\\t%d\\t%s\\n", k, s.c_str(), Mask, out.c_str() );
}
template< typename G, int... Ms > void runm( int k, const std::string& s, std::integer_sequence< int, Ms... > ) { ( run1< G, Ms >( k, s ), ... ); }
template< typename G > void run( int k ) {
   for( const char* s : { "", "a", "b", "aa", "ab", "ba", "bb", "aaa", "aab", "aba", "abb", "baa", "bab", "bba", "bbb" } ) runm< G >( k, s, std::make_integer_sequence< int, 8 >() );
}
'''
SKIP3 = {'CUSTOM_ANY', 'STATE'}  # state<> replaces every state, including the tree's own: it does not compile under parse_tree


def cases3():
    out = []
    for op in sorted(SG.OPEXPR):
        e = SG.OPEXPR[op]
        ar = sum(1 for x in ('{a}', '{b}', '{c}') if x in e)
        if ar == 0 or op in SKIP3:
            continue
        for kids in itertools.product('ST', repeat=ar):
            out.append((op, kids))
    return out


def source3(batch):
    parts = [HEADER3]
    for k, (op, kids) in batch:
        kk = list(kids) + ['S'] * (3 - len(kids))
        e = SG.OPEXPR[op].format(a=kk[0], b=kk[1], c=kk[2])
        parts.append("namespace p%d { struct S : one< 'a' > {}; struct T : one< 'b' > {}; struct L : %s {}; struct G : sor< seq< L, eof >, star< sor< S, T > > > {}; }" % (k, e))
        for i, n in enumerate('LST'):
            parts.append('template<> struct idx< p%d::%s > { static constexpr int v = %d; };' % (k, n, i))
    parts.append('int main() {')
    for k, _ in batch:
        parts.append('  run< p%d::G >( %d );' % (k, k))
    parts.append('  return 0; }')
    return '\n'.join(parts)


def project(dump, mask):
    """remove the nodes of unselected rules from a flattened tree, lifting their children"""
    if dump.startswith('<'):
        return dump
    out = []
    removed = []  # depths of removed ancestors on the current path
    path = []     # (depth, removed?) stack
    for tok in dump.split():
        d = len(tok) - len(tok.lstrip('.'))
        name = tok[d:tok.index('[')]
        while path and path[-1][0] >= d:
            path.pop()
        keep = (mask >> 'LST'.index(name)) & 1
        nd = d - sum(1 for (_, rm) in path if rm)
        path.append((d, not keep))
        if keep:
            out.append('.' * nd + tok[d:])
    return ''.join(t + ' ' for t in out)


def _run(batch, shape=1):
    text = source(batch) if shape == 1 else source2(batch) if shape == 2 else source3(batch)
    h = hashlib.sha256()
    h.update(V.tree_hash().encode())
    h.update(text.encode())
    key = h.hexdigest()[:24]
    cdir = os.path.join(V.BUILD, 'c12s')
    os.makedirs(cdir, exist_ok=True)
    cache = os.path.join(cdir, key + '.out')
    if not os.path.exists(cache):
        src, binp = os.path.join(cdir, key + '.cpp'), os.path.join(cdir, key + '.bin')
        open(src, 'w').write(text)
        r = subprocess.run([V.CXX, '-std=c++17', '-O0', '-w', '-DNDEBUG', '-I', os.path.join(V.REPO, 'include'), src, '-o', binp], stdout=subprocess.PIPE, stderr=subprocess.STDOUT, text=True)
        if r.returncode != 0:
            raise RuntimeError('static chain batch failed to compile:\n' + r.stdout[-3000:])
        out = subprocess.run([binp], stdout=subprocess.PIPE, text=True).stdout
        open(cache + '.tmp', 'w').write(out)
        os.rename(cache + '.tmp', cache)
        os.remove(binp)
        os.remove(src)
    return open(cache).read()


def run(pid, tier, agg, deadline):
    cs = list(enumerate(cases()))
    B = 40
    batches = [cs[i:i + B] for i in range(0, len(cs), B)]
    bad = 0
    with cf.ThreadPoolExecutor(V.NCPU) as ex:
        for out in ex.map(_run, batches):
            for line in out.splitlines():
                k, got = line.split('\t')
                D, selset = cs[int(k)][1]
                want = expected(D, selset)
                if got != want:
                    bad += 1
                    sig = 'C12|static chain: tree differs from the selected rules of the surviving alternative'
                    agg.viol_by_sig[sig] = agg.viol_by_sig.get(sig, 0) + 1
                    if sum(1 for v in agg.vlines if v[1] == sig) < 3:
                        agg.vlines.append(('static', sig, {'chain_depth': D, 'selected': list(selset), 'expected': want, 'observed': got}))
    cs2 = list(enumerate(cases2()))
    for line in _run(cs2, 2).splitlines():
        k, got = line.split('\t')
        selset = cs2[int(k)][1]
        want = expected2(selset)
        if got != want:
            bad += 1
            sig = 'C12|static grammar with a caught exception: tree differs from the selected rules of the surviving alternative'
            agg.viol_by_sig[sig] = agg.viol_by_sig.get(sig, 0) + 1
            if sum(1 for v in agg.vlines if v[1] == sig) < 3:
                agg.vlines.append(('static', sig, {'selected': list(selset), 'expected': want, 'observed': got}))
    cs3 = list(enumerate(cases3()))
    B3 = 6
    batches3 = [cs3[i:i + B3] for i in range(0, len(cs3), B3)]
    n3 = 0
    with cf.ThreadPoolExecutor(V.NCPU) as ex:
        for out in ex.map(lambda b: _run(b, 3), batches3):
            got = {}
            for line in out.splitlines():
                k, inp, mask, d = line.split('\t')
                got[(int(k), inp, int(mask))] = d
            for (k, inp, mask), d in sorted(got.items()):
                n3 += 1
                full = got[(k, inp, 7)]
                want = project(full, mask)
                if d != want:
                    bad += 1
                    op, kids = cs3[k][1]
                    sig = 'C12|tree under a selection is not the projection of the tree with every rule selected|' + op
                    agg.viol_by_sig[sig] = agg.viol_by_sig.get(sig, 0) + 1
                    if sum(1 for v in agg.vlines if v[1] == sig) < 3:
                        e = SG.OPEXPR[op].format(a=(list(kids) + ['S'] * 3)[0], b=(list(kids) + ['S'] * 3)[1], c=(list(kids) + ['S'] * 3)[2])
                        agg.vlines.append(('static', sig, {'L': e, 'grammar': "S : one<'a'>, T : one<'b'>, G : sor< seq< L, eof >, star< sor< S, T > > >", 'input': inp,
                                                           'selected': [n for i, n in enumerate('LST') if (mask >> i) & 1], 'expected': want, 'observed': d, 'all_selected': full}))
    agg.counters['static.selector_projection_grammars'] = len(cs3)
    agg.counters['static.selector_projection_runs'] = n3
    agg.evaluations += len(cs) + len(cs2) + n3
    agg.counters['static.caught_exception_selections'] = len(cs2)
    agg.counters['static.leaf_optimisation_chains'] = len(cs)
    agg.counters['static.leaf_optimisation_mismatches'] = bad
    agg.samples.append({'unit': 'static', 'case': {'chain_depth': 9, 'selected': [2, 9], 'expected_tree': expected(9, (2, 9))}})
