"""T <-> static grammar conformance: the tables of checks/tconf.cpp compiled as ordinary static grammars
(named rules, and a second variant with single-use rules written anonymously in place) must produce the same
result / consumed bytes / action invocation sequence on every input."""
import os, sys, json, hashlib, subprocess, concurrent.futures as cf
import verif as V
sys.path.insert(0, os.path.join(V.ROOT, 'gen'))
import static_gen as G
import re

BATCH = 60


def _run_batch(args):
    tables, inputs, nested = args
    text, named = G.parse_tu(tables, inputs, nested)
    h = hashlib.sha256()
    h.update(V.tree_hash().encode())
    h.update(text.encode())
    key = h.hexdigest()[:24]
    cdir = os.path.join(V.BUILD, 'conf')
    os.makedirs(cdir, exist_ok=True)
    cache = os.path.join(cdir, key + '.out')
    if not os.path.exists(cache):
        src = os.path.join(cdir, key + '.cpp')
        binp = os.path.join(cdir, key + '.bin')
        with open(src, 'w') as fh:
            fh.write(text)
        r = subprocess.run([V.CXX, '-std=c++17', '-O0', '-w', '-I', os.path.join(V.REPO, 'include'), src, '-o', binp], stdout=subprocess.PIPE, stderr=subprocess.STDOUT, text=True)
        if r.returncode != 0:
            raise RuntimeError('static grammar batch failed to compile:\n' + r.stdout[-3000:])
        out = subprocess.run([binp], stdout=subprocess.PIPE, text=True, preexec_fn=V._big_stack).stdout
        with open(cache + '.tmp', 'w') as fh:
            fh.write(out)
        os.rename(cache + '.tmp', cache)
        os.remove(binp)
        os.remove(src)
    with open(cache) as fh:
        return fh.read(), named


def run(pid, tier, agg, deadline):
    binp, dt, cached = V.build_unit('checks/tconf.cpp', [], None, '-O0' if tier == 'quick' else '-O1')
    agg.units.append({'unit': 't_conf', 'src': 'checks/tconf.cpp', 'build_s': round(dt, 1), 'cached': cached})
    tables = {}
    obs = {}
    with cf.ThreadPoolExecutor(V.NCPU) as ex:
        futs = [ex.submit(V.run_shard, binp, tier, i, V.NCPU, deadline) for i in range(V.NCPU)]
        for f in futs:
            rc, out, err = f.result()
            agg.add('t_conf', rc, out, err)
            for line in out.splitlines():
                if line.startswith('T\t'):
                    _, k, ser = line.split('\t')
                    tables[int(k)] = ser
                elif line.startswith('O\t'):
                    f2 = line.split('\t')
                    obs[(int(f2[1]), f2[2])] = (f2[3], f2[4], f2[5] if len(f2) > 5 else '')
    inputs = sorted(set(h for (_, h) in obs))
    items = sorted(tables.items())
    jobs = []
    for nested in (False, True):
        for i in range(0, len(items), BATCH):
            jobs.append((items[i:i + BATCH], inputs, nested))
    compared = 0
    mism = 0
    with cf.ThreadPoolExecutor(V.NCPU) as ex:
        for (out, named), job in zip(ex.map(_run_batch, jobs), jobs):
            nested = job[2]
            for line in out.splitlines():
                f2 = line.split('\t')
                k, h = int(f2[1]), f2[2]
                got = (f2[3], f2[4], f2[5] if len(f2) > 5 else '')
                want = obs[(k, h)]
                if nested:
                    keep = set(named[k])
                    flt = lambda tr: ''.join(m.group(0) for m in re.finditer(r'n(\d+)\[\d+,-?\d+\)', tr) if int(m.group(1)) in keep)
                    # an inlined rule has no name of its own: its must<>-error message names the anonymous type, by design
                    # (and whether the failing rule has an action - hence a rewind guard - changes where in [start, furthest] the error is reported)
                    ne = lambda r: re.sub(r'^error:.*$', 'error', r)
                    want = (ne(want[0]), want[1], flt(want[2]))
                    got = (ne(got[0]), got[1], got[2])
                compared += 1
                if got != want:
                    mism += 1
                    sig = 'C01|table engine and static grammar disagree (%s)' % ('anonymous nesting' if nested else 'named rules')
                    agg.viol_by_sig[sig] = agg.viol_by_sig.get(sig, 0) + 1
                    if sum(1 for v in agg.vlines if v[1] == sig) < 3:
                        agg.vlines.append(('static', sig, {'table': tables[k], 'input_hex': h, 'table_engine': want, 'static_grammar': got,
                                                           'grammar': (G.grammar_source_nested(tables[k], 'g')[0] if nested else G.grammar_source(tables[k], 'g'))}))
    agg.evaluations += compared
    agg.counters['conformance.tables'] = len(tables)
    agg.counters['conformance.static_observations_compared'] = compared
    agg.counters['conformance.mismatches'] = mism
    if items:
        k, ser = items[len(items) // 2]
        agg.samples.append({'unit': 'static', 'case': {'static_grammar': G.grammar_source_nested(ser, 'g')[0], 'inputs': len(inputs)}})
