#!/usr/bin/env python3
"""Writes MANIFEST.json from checks_registry.py (kept in sync by construction)."""
import json, os, sys
ROOT = os.path.dirname(os.path.abspath(__file__))
sys.path.insert(0, ROOT)
import checks_registry as R

ALL = ['C%02d' % i for i in range(1, 21)]
TEXT = getattr(R, 'LEVEL_TEXT', {})
checks = []
for pid in ALL:
    if pid not in R.CHECKS:
        continue
    spec = R.CHECKS[pid]
    checks.append({
        'property_id': pid,
        'quick_cmd': 'python3 verif.py check %s --tier quick' % pid,
        'thorough_cmd': 'python3 verif.py check %s --tier thorough' % pid,
        'evidence_file': 'evidence/%s.json' % pid,
        'replay_cmd_template': 'python3 verif.py replay {path}',
        'engine': spec.get('engine', 'table-engine'),
        'level_claimed': {
            'category': spec.get('level', 'model_checking'),
            'text': spec.get('level_text', 'bounded exhaustive exploration of the real implementation against a reference model: ' + spec['rule'][:400]),
            'design_ref': 'DESIGN.md section 4 ' + pid,
        },
        'level_note': '; '.join(spec['assumptions']),
        'technique': spec.get('technique', 'explicit enumeration of programs x inputs x environment answers on the real code, compared with a reference interpreter (stateless bounded model checking)'),
    })
na = [{'property_id': p, 'reason': R.NOT_YET.get(p, 'check under construction in this session; not claimed yet')} for p in ALL if p not in R.CHECKS]
m = {
    'version': 1,
    'setup_cmd': 'python3 verif.py setup',
    'hooks': {
        'guard': 'TAO_PEGTL_VERIF',
        'enable': 'harness TUs are compiled with -DTAO_PEGTL_VERIF against /repo/include (header-only library)',
        'baseline_off_cmd': 'python3 verif.py baseline-off',
        'source_commits': getattr(R, 'HOOK_COMMITS', []),
        'add_only': True,
    },
    'engines': getattr(R, 'ENGINES', []),
    'checks': checks,
    'not_applicable': na,
    'notes': 'All checks rebuild their harness from /repo\'s working tree (content-hashed cache under build/). See DESIGN.md.',
}
with open(os.path.join(ROOT, 'MANIFEST.json'), 'w') as fh:
    json.dump(m, fh, indent=1)
print('MANIFEST.json: %d checks, %d not applicable' % (len(checks), len(na)))
