// Reference recogniser for "well-formed UTF-8 encoded JSON text according to RFC 8259".
//
// Written from RFC 8259 sections 2-7 (grammar) and RFC 3629 section 4 (UTF-8 octet sequences),
// NOT from include/tao/pegtl/contrib/json.hpp.
//
// It is a recursive-descent recogniser with one function per ABNF production, but it never has to
// argue about FIRST sets, greediness or lookahead: like lang/uri_ref.hpp every production maps a
// SET of start positions to the set of ALL possible end positions (relational image), so
//     A B = B( A( S ) ),   A / B = A( S ) | B( S ),   [ A ] = S | A( S ),   *A = least fixpoint.
// A byte string of length n is a JSON text iff n is in JSON_text( { 0 } ).  The recursion
// value -> array/object -> value terminates because "[" / "{" must be consumed in between.
//
// Octets vs. code points: the grammar's `unescaped` is defined on code points; the property speaks
// about UTF-8 encoded texts, so `unescaped` here consumes one well-formed UTF-8 sequence (RFC 3629
// UTF8-char table: shortest form only, no encoded surrogates U+D800..DFFF, at most U+10FFFF)
// whose code point lies in the allowed ranges.  All other terminals are single ASCII octets.
// Literal names are given as %x.. in the RFC and therefore case-sensitive; HEXDIG (RFC 5234,
// quoted strings) matches A-F and a-f (RFC 8259 section 7 says so explicitly).
// "\uD800"-style escapes that do not form a surrogate pair ARE derivable from the ABNF
// (char = ... / escape %x75 4HEXDIG, no pairing condition; section 8.2 merely calls the result
// unpredictable), so they are accepted.  A byte order mark is not derivable and is rejected.
#pragma once
#include <cstddef>
#include <cstdint>

namespace jsonref
{
   using PosSet = unsigned __int128;  // bit i set  <=>  position i (0 .. n) is in the set
   constexpr std::size_t max_len = 126;

   inline PosSet bit( unsigned i )
   {
      return PosSet( 1 ) << i;
   }

   inline int highest( PosSet s )
   {
      const uint64_t hi = uint64_t( s >> 64 ), lo = uint64_t( s );
      if( hi ) return 127 - __builtin_clzll( hi );
      if( lo ) return 63 - __builtin_clzll( lo );
      return -1;
   }

   struct Recogniser
   {
      const unsigned char* s = nullptr;
      std::size_t n = 0;
      PosSet reach = 0;  // bookkeeping only: union of everything a terminal step produced (how far any partial derivation got)

      void load( const void* p, std::size_t len )
      {
         s = static_cast< const unsigned char* >( p );
         n = len;
         reach = 0;
      }

      // ---- terminal step: one octet in [lo, hi] ---------------------------------------------
      PosSet range( PosSet S, unsigned lo, unsigned hi )
      {
         PosSet r = 0;
         uint64_t w[ 2 ] = { uint64_t( S ), uint64_t( S >> 64 ) };
         for( int k = 0; k < 2; ++k ) {
            while( w[ k ] ) {
               const unsigned i = unsigned( __builtin_ctzll( w[ k ] ) ) + 64u * k;
               w[ k ] &= w[ k ] - 1;
               if( i < n && s[ i ] >= lo && s[ i ] <= hi ) r |= bit( i + 1 );
            }
         }
         reach |= r;
         return r;
      }
      PosSet octet( PosSet S, unsigned c ) { return range( S, c, c ); }
      PosSet octets( PosSet S, const char* lit )  // %xAA.BB.CC  (case-sensitive octet sequence)
      {
         for( ; *lit && S; ++lit ) S = octet( S, (unsigned char)*lit );
         return S;
      }

      // ---- combinators ----------------------------------------------------------------------
      template< typename F >
      PosSet star( PosSet S, F f )  // *f
      {
         PosSet acc = S, frontier = S;
         while( frontier ) {
            const PosSet nx = f( frontier ) & ~acc;
            acc |= nx;
            frontier = nx;
         }
         return acc;
      }
      template< typename F >
      PosSet plus( PosSet S, F f ) { return star( f( S ), f ); }  // 1*f
      template< typename F >
      PosSet opt( PosSet S, F f ) { return S | f( S ); }  // [ f ]

      // ---- RFC 8259 section 2: JSON Grammar --------------------------------------------------

      // JSON-text = ws value ws
      PosSet JSON_text( PosSet S ) { return ws( value( ws( S ) ) ); }

      // begin-array     = ws %x5B ws  ; [ left square bracket
      PosSet begin_array( PosSet S ) { return ws( octet( ws( S ), 0x5B ) ); }
      // begin-object    = ws %x7B ws  ; { left curly bracket
      PosSet begin_object( PosSet S ) { return ws( octet( ws( S ), 0x7B ) ); }
      // end-array       = ws %x5D ws  ; ] right square bracket
      PosSet end_array( PosSet S ) { return ws( octet( ws( S ), 0x5D ) ); }
      // end-object      = ws %x7D ws  ; } right curly bracket
      PosSet end_object( PosSet S ) { return ws( octet( ws( S ), 0x7D ) ); }
      // name-separator  = ws %x3A ws  ; : colon
      PosSet name_separator( PosSet S ) { return ws( octet( ws( S ), 0x3A ) ); }
      // value-separator = ws %x2C ws  ; , comma
      PosSet value_separator( PosSet S ) { return ws( octet( ws( S ), 0x2C ) ); }

      // ws = *( %x20 / %x09 / %x0A / %x0D )     ; Space / Horizontal tab / Line feed / Carriage return
      PosSet ws( PosSet S )
      {
         if( !S ) return 0;
         return star( S, [ & ]( PosSet T ) { return octet( T, 0x20 ) | octet( T, 0x09 ) | octet( T, 0x0A ) | octet( T, 0x0D ); } );
      }

      // ---- section 3: Values -----------------------------------------------------------------

      // value = false / null / true / object / array / number / string
      PosSet value( PosSet S )
      {
         if( !S ) return 0;
         return false_( S ) | null( S ) | true_( S ) | object( S ) | array( S ) | number( S ) | string( S );
      }
      // false = %x66.61.6c.73.65   ; false
      PosSet false_( PosSet S ) { return octets( S, "\x66\x61\x6c\x73\x65" ); }
      // null  = %x6e.75.6c.6c      ; null
      PosSet null( PosSet S ) { return octets( S, "\x6e\x75\x6c\x6c" ); }
      // true  = %x74.72.75.65      ; true
      PosSet true_( PosSet S ) { return octets( S, "\x74\x72\x75\x65" ); }

      // ---- section 4: Objects ----------------------------------------------------------------

      // object = begin-object [ member *( value-separator member ) ] end-object
      PosSet object( PosSet S )
      {
         S = begin_object( S );
         if( !S ) return 0;
         S = opt( S, [ & ]( PosSet T ) {
            return star( member( T ), [ & ]( PosSet U ) { return member( value_separator( U ) ); } );
         } );
         return end_object( S );
      }
      // member = string name-separator value
      PosSet member( PosSet S )
      {
         if( !S ) return 0;
         return value( name_separator( string( S ) ) );
      }

      // ---- section 5: Arrays -----------------------------------------------------------------

      // array = begin-array [ value *( value-separator value ) ] end-array
      PosSet array( PosSet S )
      {
         S = begin_array( S );
         if( !S ) return 0;
         S = opt( S, [ & ]( PosSet T ) {
            return star( value( T ), [ & ]( PosSet U ) { return value( value_separator( U ) ); } );
         } );
         return end_array( S );
      }

      // ---- section 6: Numbers ----------------------------------------------------------------

      // number = [ minus ] int [ frac ] [ exp ]
      PosSet number( PosSet S )
      {
         S = opt( S, [ & ]( PosSet T ) { return minus( T ); } );
         S = int_( S );
         if( !S ) return 0;
         S = opt( S, [ & ]( PosSet T ) { return frac( T ); } );
         S = opt( S, [ & ]( PosSet T ) { return exp( T ); } );
         return S;
      }
      // decimal-point = %x2E       ; .
      PosSet decimal_point( PosSet S ) { return octet( S, 0x2E ); }
      // digit1-9 = %x31-39         ; 1-9
      PosSet digit1_9( PosSet S ) { return range( S, 0x31, 0x39 ); }
      // e = %x65 / %x45            ; e E
      PosSet e( PosSet S ) { return octet( S, 0x65 ) | octet( S, 0x45 ); }
      // exp = e [ minus / plus ] 1*DIGIT
      PosSet exp( PosSet S )
      {
         S = e( S );
         S = opt( S, [ & ]( PosSet T ) { return minus( T ) | plus_sign( T ); } );
         return plus( S, [ & ]( PosSet T ) { return DIGIT( T ); } );
      }
      // frac = decimal-point 1*DIGIT
      PosSet frac( PosSet S )
      {
         return plus( decimal_point( S ), [ & ]( PosSet T ) { return DIGIT( T ); } );
      }
      // int = zero / ( digit1-9 *DIGIT )
      PosSet int_( PosSet S )
      {
         return zero( S ) | star( digit1_9( S ), [ & ]( PosSet T ) { return DIGIT( T ); } );
      }
      // minus = %x2D               ; -
      PosSet minus( PosSet S ) { return octet( S, 0x2D ); }
      // plus = %x2B                ; +
      PosSet plus_sign( PosSet S ) { return octet( S, 0x2B ); }
      // zero = %x30                ; 0
      PosSet zero( PosSet S ) { return octet( S, 0x30 ); }
      // DIGIT = %x30-39                                         (RFC 5234)
      PosSet DIGIT( PosSet S ) { return range( S, 0x30, 0x39 ); }
      // HEXDIG = DIGIT / "A" / "B" / "C" / "D" / "E" / "F"      (RFC 5234; quoted => case-insensitive)
      PosSet HEXDIG( PosSet S ) { return DIGIT( S ) | range( S, 'A', 'F' ) | range( S, 'a', 'f' ); }

      // ---- section 7: Strings ----------------------------------------------------------------

      // string = quotation-mark *char quotation-mark
      PosSet string( PosSet S )
      {
         S = quotation_mark( S );
         if( !S ) return 0;
         S = star( S, [ & ]( PosSet T ) { return char_( T ); } );
         return quotation_mark( S );
      }
      // char = unescaped /
      //     escape (
      //         %x22 /          ; "    quotation mark  U+0022
      //         %x5C /          ; \    reverse solidus U+005C
      //         %x2F /          ; /    solidus         U+002F
      //         %x62 /          ; b    backspace       U+0008
      //         %x66 /          ; f    form feed       U+000C
      //         %x6E /          ; n    line feed       U+000A
      //         %x72 /          ; r    carriage return U+000D
      //         %x74 /          ; t    tab             U+0009
      //         %x75 4HEXDIG )  ; uXXXX                U+XXXX
      PosSet char_( PosSet S )
      {
         const PosSet E = escape( S );
         PosSet r = unescaped( S );
         if( E ) {
            r |= octet( E, 0x22 ) | octet( E, 0x5C ) | octet( E, 0x2F ) | octet( E, 0x62 ) | octet( E, 0x66 ) | octet( E, 0x6E ) | octet( E, 0x72 ) | octet( E, 0x74 );
            r |= HEXDIG( HEXDIG( HEXDIG( HEXDIG( octet( E, 0x75 ) ) ) ) );
         }
         return r;
      }
      // escape = %x5C              ; backslash
      PosSet escape( PosSet S ) { return octet( S, 0x5C ); }
      // quotation-mark = %x22      ; "
      PosSet quotation_mark( PosSet S ) { return octet( S, 0x22 ); }

      // unescaped = %x20-21 / %x23-5B / %x5D-10FFFF
      //   as UTF-8 octets: the one-octet code points %x20-21 / %x23-5B / %x5D-7F, and every
      //   well-formed multi-octet sequence (all of them encode code points in %x80-10FFFF)
      PosSet unescaped( PosSet S )
      {
         return range( S, 0x20, 0x21 ) | range( S, 0x23, 0x5B ) | range( S, 0x5D, 0x7F ) | UTF8_2( S ) | UTF8_3( S ) | UTF8_4( S );
      }

      // ---- RFC 3629 section 4: Syntax of UTF-8 Byte Sequences --------------------------------

      // UTF8-tail = %x80-BF
      PosSet UTF8_tail( PosSet S ) { return range( S, 0x80, 0xBF ); }
      // UTF8-1 = %x00-7F
      PosSet UTF8_1( PosSet S ) { return range( S, 0x00, 0x7F ); }
      // UTF8-2 = %xC2-DF UTF8-tail
      PosSet UTF8_2( PosSet S ) { return UTF8_tail( range( S, 0xC2, 0xDF ) ); }
      // UTF8-3 = %xE0 %xA0-BF UTF8-tail / %xE1-EC 2( UTF8-tail ) / %xED %x80-9F UTF8-tail / %xEE-EF 2( UTF8-tail )
      PosSet UTF8_3( PosSet S )
      {
         return UTF8_tail( range( octet( S, 0xE0 ), 0xA0, 0xBF ) )
                | UTF8_tail( UTF8_tail( range( S, 0xE1, 0xEC ) ) )
                | UTF8_tail( range( octet( S, 0xED ), 0x80, 0x9F ) )
                | UTF8_tail( UTF8_tail( range( S, 0xEE, 0xEF ) ) );
      }
      // UTF8-4 = %xF0 %x90-BF 2( UTF8-tail ) / %xF1-F3 3( UTF8-tail ) / %xF4 %x80-8F 2( UTF8-tail )
      PosSet UTF8_4( PosSet S )
      {
         return UTF8_tail( UTF8_tail( range( octet( S, 0xF0 ), 0x90, 0xBF ) ) )
                | UTF8_tail( UTF8_tail( UTF8_tail( range( S, 0xF1, 0xF3 ) ) ) )
                | UTF8_tail( UTF8_tail( range( octet( S, 0xF4 ), 0x80, 0x8F ) ) );
      }
      // UTF8-char = UTF8-1 / UTF8-2 / UTF8-3 / UTF8-4
      PosSet UTF8_char( PosSet S ) { return UTF8_1( S ) | UTF8_2( S ) | UTF8_3( S ) | UTF8_4( S ); }
      // UTF8-octets = *( UTF8-char )
      PosSet UTF8_octets( PosSet S )
      {
         return star( S, [ & ]( PosSet T ) { return UTF8_char( T ); } );
      }

      // ---- entry points ---------------------------------------------------------------------

      // the loaded byte string is a JSON text  <=>  its length is a possible end position of JSON-text
      bool is_json_text()
      {
         if( n > max_len ) return false;
         return ( JSON_text( bit( 0 ) ) & bit( unsigned( n ) ) ) != 0;
      }
      // the loaded byte string is well-formed UTF-8 (used only to classify disagreements)
      bool is_utf8()
      {
         if( n > max_len ) return false;
         return ( UTF8_octets( bit( 0 ) ) & bit( unsigned( n ) ) ) != 0;
      }
   };

}  // namespace jsonref
