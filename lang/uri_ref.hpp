// Language-exact reference recogniser for RFC 3986 Appendix A ("Collected ABNF for URI").
//
// Written from the RFC text, NOT from include/tao/pegtl/contrib/uri.hpp.  The PEGTL grammar
// is an ordered-choice PEG (first matching alternative wins, repetitions are greedy and
// never give anything back); ABNF is a plain context-free notation in which a string is
// derivable as soon as SOME choice of alternatives / repetition counts derives it.  To get
// exactly the ABNF language this matcher never commits: every production is a function
//
//        PosSet production( PosSet starts )
//
// that maps a SET of start positions to the set of ALL positions at which some derivation
// of the production, begun at one of the start positions, can end (the relational image).
//     concatenation  A B     =  B( A( S ) )
//     alternation    A / B   =  A( S ) | B( S )
//     option         [ A ]   =  S | A( S )
//     repetition     *A      =  least fixpoint  S | A( S ) | A( A( S ) ) | ...
//     repetition     n A     =  A applied n times;   *n A  =  union of 0 .. n applications
// A string s of length n is derivable from production P iff  n is in P( { 0 } ).
// There is no lookahead, no ordered choice and no greediness anywhere in this file.
//
// ABNF conventions used (RFC 5234): quoted literals are case-insensitive ("v" matches v and V,
// HEXDIG = DIGIT / "A" / .. / "F" therefore also matches a-f); %x.. values are exact octets;
// ALPHA = %x41-5A / %x61-7A; DIGIT = %x30-39.
#pragma once
#include <cstddef>
#include <cstdint>
#include <cstring>

namespace uriref
{
   using PosSet = unsigned __int128;  // bit i set  <=>  position i (0 .. n) is in the set
   constexpr std::size_t max_len = 126;

   inline PosSet bit( unsigned i )
   {
      return PosSet( 1 ) << i;
   }

   inline int highest( PosSet s )  // index of the highest member, -1 for the empty set
   {
      const uint64_t hi = uint64_t( s >> 64 ), lo = uint64_t( s );
      if( hi ) return 127 - __builtin_clzll( hi );
      if( lo ) return 63 - __builtin_clzll( lo );
      return -1;
   }

   enum Rule
   {
      R_URI,
      R_URI_reference,
      R_absolute_URI,
      R_IPv4address,
      R_IPv6address,
      R_count
   };

   inline const char* rule_name( int r )
   {
      static const char* n[] = { "URI", "URI_reference", "absolute_URI", "IPv4address", "IPv6address" };
      return r >= 0 && r < R_count ? n[ r ] : "?";
   }

   struct Matcher
   {
      const unsigned char* s = nullptr;
      std::size_t n = 0;

      // at[ b ] = set of positions i < n with s[ i ] == b   (only entries of bytes that occur are non-zero)
      PosSet at[ 256 ] = {};
      unsigned char touched[ 128 ];
      unsigned ntouched = 0;

      // character classes as position sets, computed once per input
      PosSet m_ALPHA = 0, m_DIGIT = 0, m_HEXDIG = 0, m_unreserved = 0, m_sub_delims = 0;
      PosSet m_31_39 = 0, m_30_34 = 0, m_30_35 = 0;

      // bookkeeping (not part of the language definition)
      PosSet reach = 0;        // union of everything any terminal step produced: how far any partial derivation got
      PosSet host_starts = 0;  // positions at which production `host` was started (for classifying disagreements)

      static bool is_alpha( unsigned c ) { return ( c >= 0x41 && c <= 0x5A ) || ( c >= 0x61 && c <= 0x7A ); }
      static bool is_digit( unsigned c ) { return c >= 0x30 && c <= 0x39; }
      static bool is_hexdig( unsigned c ) { return is_digit( c ) || ( c >= 'A' && c <= 'F' ) || ( c >= 'a' && c <= 'f' ); }
      static bool is_unreserved( unsigned c ) { return is_alpha( c ) || is_digit( c ) || c == '-' || c == '.' || c == '_' || c == '~'; }
      static bool is_sub_delim( unsigned c ) { return c && std::strchr( "!$&'()*+,;=", int( c ) ) != nullptr && c < 0x80; }

      bool load( const void* p, std::size_t len )
      {
         for( unsigned k = 0; k < ntouched; ++k ) at[ touched[ k ] ] = 0;
         ntouched = 0;
         m_ALPHA = m_DIGIT = m_HEXDIG = m_unreserved = m_sub_delims = m_31_39 = m_30_34 = m_30_35 = 0;
         reach = host_starts = 0;
         s = static_cast< const unsigned char* >( p );
         n = len;
         if( len > max_len ) return false;
         for( unsigned i = 0; i < len; ++i ) {
            const unsigned c = s[ i ];
            const PosSet b = bit( i );
            if( !at[ c ] ) touched[ ntouched++ ] = (unsigned char)c;
            at[ c ] |= b;
            if( is_alpha( c ) ) m_ALPHA |= b;
            if( is_digit( c ) ) m_DIGIT |= b;
            if( is_hexdig( c ) ) m_HEXDIG |= b;
            if( is_unreserved( c ) ) m_unreserved |= b;
            if( is_sub_delim( c ) ) m_sub_delims |= b;
            if( c >= 0x31 && c <= 0x39 ) m_31_39 |= b;
            if( c >= 0x30 && c <= 0x34 ) m_30_34 |= b;
            if( c >= 0x30 && c <= 0x35 ) m_30_35 |= b;
         }
         return true;
      }

      // ---- terminal steps -------------------------------------------------------------------
      PosSet in( PosSet S, PosSet mask )  // one octet of a class: every start position carrying such an octet moves on by one
      {
         const PosSet r = ( S & mask ) << 1;
         reach |= r;
         return r;
      }
      PosSet ch( PosSet S, char c ) { return in( S, at[ (unsigned char)c ] ); }  // one exact octet (non-letters)
      PosSet ci( PosSet S, char c )                                              // quoted ABNF letter: case-insensitive
      {
         return in( S, at[ (unsigned char)( c | 0x20 ) ] | at[ (unsigned char)( c & ~0x20 ) ] );
      }

      // ---- combinators ----------------------------------------------------------------------
      template< typename F >
      PosSet star( PosSet S, F f )  // *f : least fixpoint, evaluated on the frontier only
      {
         PosSet acc = S, frontier = S;
         while( frontier ) {
            const PosSet nx = f( frontier ) & ~acc;
            acc |= nx;
            frontier = nx;
         }
         return acc;
      }
      template< typename F >
      PosSet plus( PosSet S, F f ) { return star( f( S ), f ); }  // 1*f
      template< typename F >
      PosSet opt( PosSet S, F f ) { return S | f( S ); }  // [ f ]
      template< typename F >
      PosSet rep( PosSet S, int k, F f )  // k f  (exactly k)
      {
         for( int i = 0; i < k && S; ++i ) S = f( S );
         return S;
      }
      template< typename F >
      PosSet upto( PosSet S, int k, F f )  // *k f  (0 .. k)
      {
         PosSet acc = S;
         for( int i = 0; i < k && S; ++i ) {
            S = f( S );
            acc |= S;
         }
         return acc;
      }

      // ---- RFC 5234 core rules --------------------------------------------------------------
      PosSet ALPHA( PosSet S ) { return in( S, m_ALPHA ); }    // ALPHA = %x41-5A / %x61-7A
      PosSet DIGIT( PosSet S ) { return in( S, m_DIGIT ); }    // DIGIT = %x30-39
      PosSet HEXDIG( PosSet S ) { return in( S, m_HEXDIG ); }  // HEXDIG = DIGIT / "A" / "B" / "C" / "D" / "E" / "F"

      // ---- RFC 3986 Appendix A --------------------------------------------------------------

      // URI = scheme ":" hier-part [ "?" query ] [ "#" fragment ]
      PosSet URI( PosSet S )
      {
         S = hier_part( ch( scheme( S ), ':' ) );
         S = opt( S, [ & ]( PosSet T ) { return query( ch( T, '?' ) ); } );
         S = opt( S, [ & ]( PosSet T ) { return fragment( ch( T, '#' ) ); } );
         return S;
      }

      // hier-part = "//" authority path-abempty / path-absolute / path-rootless / path-empty
      PosSet hier_part( PosSet S )
      {
         return path_abempty( authority( ch( ch( S, '/' ), '/' ) ) ) | path_absolute( S ) | path_rootless( S ) | path_empty( S );
      }

      // URI-reference = URI / relative-ref
      PosSet URI_reference( PosSet S ) { return URI( S ) | relative_ref( S ); }

      // absolute-URI = scheme ":" hier-part [ "?" query ]
      PosSet absolute_URI( PosSet S )
      {
         S = hier_part( ch( scheme( S ), ':' ) );
         return opt( S, [ & ]( PosSet T ) { return query( ch( T, '?' ) ); } );
      }

      // relative-ref = relative-part [ "?" query ] [ "#" fragment ]
      PosSet relative_ref( PosSet S )
      {
         S = relative_part( S );
         S = opt( S, [ & ]( PosSet T ) { return query( ch( T, '?' ) ); } );
         S = opt( S, [ & ]( PosSet T ) { return fragment( ch( T, '#' ) ); } );
         return S;
      }

      // relative-part = "//" authority path-abempty / path-absolute / path-noscheme / path-empty
      PosSet relative_part( PosSet S )
      {
         return path_abempty( authority( ch( ch( S, '/' ), '/' ) ) ) | path_absolute( S ) | path_noscheme( S ) | path_empty( S );
      }

      // scheme = ALPHA *( ALPHA / DIGIT / "+" / "-" / "." )
      PosSet scheme( PosSet S )
      {
         return star( ALPHA( S ), [ & ]( PosSet T ) { return ALPHA( T ) | DIGIT( T ) | ch( T, '+' ) | ch( T, '-' ) | ch( T, '.' ); } );
      }

      // authority = [ userinfo "@" ] host [ ":" port ]
      PosSet authority( PosSet S )
      {
         S = opt( S, [ & ]( PosSet T ) { return ch( userinfo( T ), '@' ); } );
         S = host( S );
         return opt( S, [ & ]( PosSet T ) { return port( ch( T, ':' ) ); } );
      }

      // userinfo = *( unreserved / pct-encoded / sub-delims / ":" )
      PosSet userinfo( PosSet S )
      {
         return star( S, [ & ]( PosSet T ) { return unreserved( T ) | pct_encoded( T ) | sub_delims( T ) | ch( T, ':' ); } );
      }

      // host = IP-literal / IPv4address / reg-name
      PosSet host( PosSet S )
      {
         host_starts |= S;
         return IP_literal( S ) | IPv4address( S ) | reg_name( S );
      }

      // port = *DIGIT
      PosSet port( PosSet S )
      {
         return star( S, [ & ]( PosSet T ) { return DIGIT( T ); } );
      }

      // IP-literal = "[" ( IPv6address / IPvFuture ) "]"
      PosSet IP_literal( PosSet S )
      {
         S = ch( S, '[' );
         return ch( IPv6address( S ) | IPvFuture( S ), ']' );
      }

      // IPvFuture = "v" 1*HEXDIG "." 1*( unreserved / sub-delims / ":" )
      PosSet IPvFuture( PosSet S )
      {
         S = ci( S, 'v' );
         S = plus( S, [ & ]( PosSet T ) { return HEXDIG( T ); } );
         S = ch( S, '.' );
         return plus( S, [ & ]( PosSet T ) { return unreserved( T ) | sub_delims( T ) | ch( T, ':' ); } );
      }

      // ( h16 ":" )  -- the group that is repeated in IPv6address
      PosSet h16_colon( PosSet S ) { return ch( h16( S ), ':' ); }
      // "::"
      PosSet dcolon( PosSet S ) { return ch( ch( S, ':' ), ':' ); }
      // [ *k( h16 ":" ) h16 ]
      PosSet opt_h16s( PosSet S, int k )
      {
         return opt( S, [ & ]( PosSet T ) { return h16( upto( T, k, [ & ]( PosSet U ) { return h16_colon( U ); } ) ); } );
      }

      // IPv6address =                            6( h16 ":" ) ls32
      //             /                       "::" 5( h16 ":" ) ls32
      //             / [               h16 ] "::" 4( h16 ":" ) ls32
      //             / [ *1( h16 ":" ) h16 ] "::" 3( h16 ":" ) ls32
      //             / [ *2( h16 ":" ) h16 ] "::" 2( h16 ":" ) ls32
      //             / [ *3( h16 ":" ) h16 ] "::"    h16 ":"   ls32
      //             / [ *4( h16 ":" ) h16 ] "::"              ls32
      //             / [ *5( h16 ":" ) h16 ] "::"              h16
      //             / [ *6( h16 ":" ) h16 ] "::"
      PosSet IPv6address( PosSet S )
      {
         if( !S ) return 0;
         auto g = [ & ]( PosSet T ) { return h16_colon( T ); };
         PosSet r = 0;
         r |= ls32( rep( S, 6, g ) );
         r |= ls32( rep( dcolon( S ), 5, g ) );
         r |= ls32( rep( dcolon( opt_h16s( S, 0 ) ), 4, g ) );
         r |= ls32( rep( dcolon( opt_h16s( S, 1 ) ), 3, g ) );
         r |= ls32( rep( dcolon( opt_h16s( S, 2 ) ), 2, g ) );
         r |= ls32( h16_colon( dcolon( opt_h16s( S, 3 ) ) ) );
         r |= ls32( dcolon( opt_h16s( S, 4 ) ) );
         r |= h16( dcolon( opt_h16s( S, 5 ) ) );
         r |= dcolon( opt_h16s( S, 6 ) );
         return r;
      }

      // h16 = 1*4HEXDIG
      PosSet h16( PosSet S )
      {
         S = HEXDIG( S );
         return upto( S, 3, [ & ]( PosSet T ) { return HEXDIG( T ); } );
      }

      // ls32 = ( h16 ":" h16 ) / IPv4address
      PosSet ls32( PosSet S ) { return h16( ch( h16( S ), ':' ) ) | IPv4address( S ); }

      // IPv4address = dec-octet "." dec-octet "." dec-octet "." dec-octet
      PosSet IPv4address( PosSet S )
      {
         return dec_octet( ch( dec_octet( ch( dec_octet( ch( dec_octet( S ), '.' ) ), '.' ) ), '.' ) );
      }

      // dec-octet = DIGIT                 ; 0-9
      //           / %x31-39 DIGIT         ; 10-99
      //           / "1" 2DIGIT            ; 100-199
      //           / "2" %x30-34 DIGIT     ; 200-249
      //           / "25" %x30-35          ; 250-255
      PosSet dec_octet( PosSet S )
      {
         if( !S ) return 0;
         return DIGIT( S )
                | DIGIT( in( S, m_31_39 ) )
                | DIGIT( DIGIT( ch( S, '1' ) ) )
                | DIGIT( in( ch( S, '2' ), m_30_34 ) )
                | in( ch( ch( S, '2' ), '5' ), m_30_35 );
      }

      // reg-name = *( unreserved / pct-encoded / sub-delims )
      PosSet reg_name( PosSet S )
      {
         return star( S, [ & ]( PosSet T ) { return unreserved( T ) | pct_encoded( T ) | sub_delims( T ) ; } );
      }

      // path = path-abempty / path-absolute / path-noscheme / path-rootless / path-empty   (not used by the five tested rules)
      PosSet path( PosSet S ) { return path_abempty( S ) | path_absolute( S ) | path_noscheme( S ) | path_rootless( S ) | path_empty( S ); }

      // *( "/" segment )
      PosSet slash_segments( PosSet S )
      {
         return star( S, [ & ]( PosSet T ) { return segment( ch( T, '/' ) ); } );
      }

      // path-abempty = *( "/" segment )
      PosSet path_abempty( PosSet S ) { return slash_segments( S ); }

      // path-absolute = "/" [ segment-nz *( "/" segment ) ]
      PosSet path_absolute( PosSet S )
      {
         return opt( ch( S, '/' ), [ & ]( PosSet T ) { return slash_segments( segment_nz( T ) ); } );
      }

      // path-noscheme = segment-nz-nc *( "/" segment )
      PosSet path_noscheme( PosSet S ) { return slash_segments( segment_nz_nc( S ) ); }

      // path-rootless = segment-nz *( "/" segment )
      PosSet path_rootless( PosSet S ) { return slash_segments( segment_nz( S ) ); }

      // path-empty = 0<pchar>
      PosSet path_empty( PosSet S ) { return S; }

      // segment = *pchar
      PosSet segment( PosSet S )
      {
         return star( S, [ & ]( PosSet T ) { return pchar( T ); } );
      }

      // segment-nz = 1*pchar
      PosSet segment_nz( PosSet S )
      {
         return plus( S, [ & ]( PosSet T ) { return pchar( T ); } );
      }

      // segment-nz-nc = 1*( unreserved / pct-encoded / sub-delims / "@" )     ; non-zero-length segment without any colon ":"
      PosSet segment_nz_nc( PosSet S )
      {
         return plus( S, [ & ]( PosSet T ) { return unreserved( T ) | pct_encoded( T ) | sub_delims( T ) | ch( T, '@' ); } );
      }

      // pchar = unreserved / pct-encoded / sub-delims / ":" / "@"
      PosSet pchar( PosSet S )
      {
         if( !S ) return 0;
         return unreserved( S ) | pct_encoded( S ) | sub_delims( S ) | ch( S, ':' ) | ch( S, '@' );
      }

      // query = *( pchar / "/" / "?" )
      PosSet query( PosSet S )
      {
         return star( S, [ & ]( PosSet T ) { return pchar( T ) | ch( T, '/' ) | ch( T, '?' ); } );
      }

      // fragment = *( pchar / "/" / "?" )
      PosSet fragment( PosSet S )
      {
         return star( S, [ & ]( PosSet T ) { return pchar( T ) | ch( T, '/' ) | ch( T, '?' ); } );
      }

      // pct-encoded = "%" HEXDIG HEXDIG
      PosSet pct_encoded( PosSet S ) { return HEXDIG( HEXDIG( ch( S, '%' ) ) ); }

      // unreserved = ALPHA / DIGIT / "-" / "." / "_" / "~"
      PosSet unreserved( PosSet S ) { return in( S, m_unreserved ); }

      // reserved = gen-delims / sub-delims                      (not used by the five tested rules)
      PosSet reserved( PosSet S ) { return gen_delims( S ) | sub_delims( S ); }

      // gen-delims = ":" / "/" / "?" / "#" / "[" / "]" / "@"    (not used by the five tested rules)
      PosSet gen_delims( PosSet S ) { return ch( S, ':' ) | ch( S, '/' ) | ch( S, '?' ) | ch( S, '#' ) | ch( S, '[' ) | ch( S, ']' ) | ch( S, '@' ); }

      // sub-delims = "!" / "$" / "&" / "'" / "(" / ")" / "*" / "+" / "," / ";" / "="
      PosSet sub_delims( PosSet S ) { return in( S, m_sub_delims ); }

      // ---- entry points ---------------------------------------------------------------------
      PosSet ends( int rule, PosSet S )
      {
         switch( rule ) {
            case R_URI: return URI( S );
            case R_URI_reference: return URI_reference( S );
            case R_absolute_URI: return absolute_URI( S );
            case R_IPv4address: return IPv4address( S );
            case R_IPv6address: return IPv6address( S );
         }
         return 0;
      }

      // the string loaded with load() is derivable from `rule`  <=>  its length is a possible end position
      bool derivable( int rule )
      {
         if( n > max_len ) return false;
         return ( ends( rule, bit( 0 ) ) & bit( unsigned( n ) ) ) != 0;
      }
   };

}  // namespace uriref
