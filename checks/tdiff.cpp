// C07 (b): the same table program on the same bytes through every input class must give the same
// result, consumed length, action trace (with positions) and error; for buffer inputs every legal
// read-size pattern of the reader is an explored environment choice.  Reference observation = eager
// memory_input.  With a buffer that is too small the only permitted deviation is std::overflow_error.
#define VERIF_K 5
#define VERIF_GROUPS ( T::G_CORE | T::G_CORE3 | T::G_ATOM2 | T::G_MUST | T::G_RAW | T::G_POS )
#define VERIF_FAMS 1
#define VERIF_CTLS 1
#include "../engine/pipeline.hpp"

#include <tao/pegtl/argv_input.hpp>
#include <tao/pegtl/buffer_input.hpp>
#include <tao/pegtl/cstream_input.hpp>
#include <tao/pegtl/file_input.hpp>
#include <tao/pegtl/istream_input.hpp>
#include <tao/pegtl/mmap_input.hpp>
#include <tao/pegtl/read_input.hpp>
#include <tao/pegtl/string_input.hpp>

#include <algorithm>
#include <fstream>
#include <sstream>
#include <sys/stat.h>

using namespace PL;

struct TraceEv
{
   int rule;
   size_t byte, line, column;
   std::string text;
   bool operator==( const TraceEv& o ) const { return rule == o.rule && byte == o.byte && line == o.line && column == o.column && text == o.text; }
};
static std::vector< TraceEv > trace;

template< typename Rule >
struct trace_act : p::nothing< Rule >
{};
template< unsigned I >
struct trace_node
{
   template< typename AI >
   static void apply( const AI& in )
   {
      const auto pos = in.position();
      trace.push_back( { int( I ), pos.byte, pos.line, pos.column, in.string() } );
   }
};
// program rules are node<3>, node<4>; node<0..2> are the wrapper (an action with input must not span a discard)
template<>
struct trace_act< node< 3 > > : trace_node< 3 >
{};
template<>
struct trace_act< node< 4 > > : trace_node< 4 >
{};

struct Obs
{
   int kind = 0;  // 0 failed 1 ok 2 parse_error 3 overflow_error 4 fuel 5 other
   size_t consumed = 0;
   std::string msg;
   size_t ebyte = 0, eline = 0, ecol = 0;
   std::vector< TraceEv > tr;
   int hook = 0;  // peek_char / bump beyond the buffered window (TAO_PEGTL_VERIF hook)
   bool same( const Obs& o ) const
   {
      if( kind != o.kind ) return false;
      if( kind <= 1 && consumed != o.consumed ) return false;
      if( kind == 2 && ( msg != o.msg || ebyte != o.ebyte || eline != o.eline || ecol != o.ecol ) ) return false;
      return tr == o.tr;
   }
   std::string str() const
   {
      static const char* k[] = { "failed", "ok", "parse_error", "overflow_error", "fuel", "other exception" };
      std::string s = std::string( k[ kind ] ) + " consumed=" + std::to_string( consumed );
      if( kind == 2 ) s += " '" + msg + "'@" + std::to_string( ebyte ) + ":" + std::to_string( eline ) + ":" + std::to_string( ecol );
      s += " trace:";
      for( auto& t : tr ) s += " n" + std::to_string( t.rule ) + "@" + std::to_string( t.byte ) + ":" + std::to_string( t.line ) + ":" + std::to_string( t.column ) + "'" + vf::show( t.text ) + "'";
      return s;
   }
};

template< typename In >
static Obs observe( In& in )
{
   Obs o;
   trace.clear();
   fuel = 3000;
   fuel_out = false;
   verif_c03 = 0;
   try {
      const bool ok = p::parse< node< 0 >, trace_act, p::normal >( in );
      o.kind = ok ? 1 : 0;
      o.consumed = in.byte();
   }
   catch( const Fuel& ) {
      o.kind = 4;
   }
   catch( const p::parse_error& e ) {
      o.kind = 2;
      o.msg = std::string( e.message() );
      o.ebyte = e.position_object().byte;
      o.eline = e.position_object().line;
      o.ecol = e.position_object().column;
   }
   catch( const std::overflow_error& ) {
      o.kind = 3;
   }
   catch( ... ) {
      o.kind = 5;
   }
   if( fuel_out ) o.kind = 4;
   o.tr = trace;
   o.hook = verif_c03;
   return o;
}

// reader whose read sizes are explorer choices (option 0 = the full request, the default environment answer)
struct XReader
{
   const char* data;
   size_t n;
   size_t off = 0;
   XReader( const char* d, size_t len )
      : data( d ), n( len )
   {}
   std::size_t operator()( char* buffer, const std::size_t length )
   {
      const size_t remaining = n - off;
      if( remaining == 0 || length == 0 ) return 0;
      const size_t want = std::min( length, remaining );
      const size_t k = want - size_t( X.choose( int( want ), true ) );
      memcpy( buffer, data + off, k );
      off += k;
      return k;
   }
};

static R::Interp RI;
static std::string scratch;
static std::string g_ctx_input, g_ctx_wrapper;
static const char* g_ctx_cls = "";
// an exception that cannot reach the caller of parse() (thrown through a noexcept rule) ends in std::terminate
static void on_terminate()
{
   vf::violation( std::string( "C07|std::terminate during the parsing run: an exception did not propagate to the caller of parse()|" ) + g_ctx_cls, "\"table\":\"" + vf::jesc( show_tab( 5 ) ) + "\",\"wrapper\":\"" + g_ctx_wrapper + "\",\"input\":\"" + vf::jesc( vf::show( g_ctx_input ) ) + "\",\"choices\":\"" + X.str() + "\"", ser_tab( 5 ) + "|" + vf::hex( g_ctx_input ) + "|" + g_ctx_cls + "|" + X.str() );
   vf::st.exhaustive = false;
   vf::st.note = "aborted by std::terminate inside the library; remaining executions of this shard not explored";
   vf::finish();
   _exit( 0 );
}
static long n_divergent = 0;

static std::string file_for( const std::string& s )
{
   return scratch + "/in_" + vf::hex( s ) + "_";
}

static void report( const char* what, const char* cls, int nrules, const std::string& input, const Obs& want, const Obs& got, const std::string& wrapper )
{
   const std::string sig = std::string( "C07|" ) + what + "|" + cls;
   vf::violation( sig, "\"table\":\"" + vf::jesc( show_tab( nrules ) ) + "\",\"wrapper\":\"" + wrapper + "\",\"input\":\"" + vf::jesc( vf::show( input ) ) + "\",\"choices\":\"" + X.str() + "\",\"memory_input\":\"" + vf::jesc( want.str() ) + "\",\"observed\":\"" + vf::jesc( got.str() ) + "\"", ser_tab( nrules ) + "|" + vf::hex( input ) + "|" + cls + "|" + X.str() );
}

// run one buffer configuration over all read-size patterns with <= bound short reads
template< std::size_t Chunk >
static void buffer_runs( const char* cls, std::size_t maximum, bool overflow_allowed, int bound, int nrules, const std::string& input, const Obs& ref, const std::string& wrapper )
{
   std::vector< int > pre;
   X.bound = bound;
   g_ctx_cls = cls;
   g_ctx_input = input;
   g_ctx_wrapper = wrapper;
   for( ;; ) {
      X.begin( pre );
      p::buffer_input< XReader, p::eol::lf_crlf, std::string, Chunk > in( "src", maximum, input.data(), input.size() );
      const Obs o = observe( in );
      ++vf::st.evaluations;
      const bool shortread = std::any_of( X.choices.begin(), X.choices.end(), []( int c ) { return c != 0; } );
      if( shortread ) vf::count( "buffer_runs_with_short_reads" );
      if( o.hook ) report( "read or cursor move beyond the buffered window", cls, nrules, input, ref, o, wrapper );
      if( o.kind == 3 ) {
         vf::count( "overflow_errors" );
         if( !overflow_allowed ) report( "std::overflow_error although the buffer can hold the whole input", cls, nrules, input, ref, o, wrapper );
      }
      else if( !o.same( ref ) ) {
         report( shortread ? "result differs from memory_input under a short read pattern" : "result differs from memory_input", cls, nrules, input, ref, o, wrapper );
      }
      if( shortread && vf::st.distinct.size() < 2000000 ) vf::nontrivial( vf::mix( vf::hstr( ser_tab( nrules ) + input + cls ), vf::hstr( X.str() ) ) );
      if( !X.next( pre ) ) break;
   }
}

// everything that is run for one (table, input): reference check, the eager memory_input observation, every other input class
static void run_case( const std::string& s, const char* wname, bool thorough )
{
            // the reference interpreter only decides whether the program is well-formed on this input
            {
               Buf buf( s );
               g_begin = buf.p;
               X.begin( {} );
               memo.clear();
               RI.data = buf.p;
               RI.reset( 500 );
               bool div = false;
               try {
                  (void)RI.ev( 0, 0, int( buf.n ), R::Ctx{ 1, 0, -1, 1 } );
               }
               catch( const R::Diverge& ) {
                  div = true;
               }
               if( div ) {
                  ++n_divergent;
                  return;
               }
            }
            Obs ref;
            {
               p::memory_input< p::tracking_mode::eager, p::eol::lf_crlf, std::string > in( s.data(), s.data() + s.size(), "src" );
               ref = observe( in );
            }
            ++vf::st.evaluations;
            if( ref.kind == 4 ) return;
            g_ctx_input = s;
            g_ctx_wrapper = wname;
            g_ctx_cls = "memory / file / stream input";
            auto cmp = [ & ]( const char* cls, const Obs& o ) {
               ++vf::st.evaluations;
               X.begin( {} );
               if( !o.same( ref ) ) report( "result differs from memory_input", cls, 5, s, ref, o, wname );
            };
            {
               p::memory_input< p::tracking_mode::lazy, p::eol::lf_crlf, std::string > in( s.data(), s.data() + s.size(), "src" );
               cmp( "lazy memory_input", observe( in ) );
            }
            {
               p::string_input<> in( s, "src" );
               cmp( "string_input", observe( in ) );
            }
            if( s.find( '\0' ) == std::string::npos ) {  // argv strings end at the first NUL by definition
               std::string z = s;  // NUL terminated copy
               char* av[ 2 ] = { nullptr, z.data() };
               p::argv_input<> in( av, 1, "src" );
               cmp( "argv_input", observe( in ) );
            }
            {
               p::read_input<> in( file_for( s ), "src" );
               cmp( "read_input", observe( in ) );
            }
            {
               p::mmap_input<> in( file_for( s ), "src" );
               cmp( "mmap_input", observe( in ) );
            }
            {
               p::file_input<> in( file_for( s ), "src" );
               cmp( "file_input", observe( in ) );
            }
            {
               // a non-default eol policy must reach the file based classes too: reference = eager memory_input with eol::cr
               Obs refcr;
               {
                  p::memory_input< p::tracking_mode::eager, p::eol::cr, std::string > in( s.data(), s.data() + s.size(), "src" );
                  refcr = observe( in );
               }
               ++vf::st.evaluations;
               if( refcr.kind != 4 ) {
                  {
                     p::file_input< p::tracking_mode::eager, p::eol::cr > in( file_for( s ), "src" );
                     const Obs o = observe( in );
                     ++vf::st.evaluations;
                     X.begin( {} );
                     if( !o.same( refcr ) ) report( "result differs from memory_input", "file_input with eol::cr", 5, s, refcr, o, wname );
                  }
                  {
                     p::read_input< p::tracking_mode::eager, p::eol::cr > in( file_for( s ), "src" );
                     const Obs o = observe( in );
                     ++vf::st.evaluations;
                     X.begin( {} );
                     if( !o.same( refcr ) ) report( "result differs from memory_input", "read_input with eol::cr", 5, s, refcr, o, wname );
                  }
               }
            }
            {
               std::istringstream ss( s );
               p::istream_input<> in( ss, 16, "src" );
               cmp( "istream_input", observe( in ) );
            }
            {
               std::string z = s;
               std::FILE* f = z.empty() ? std::fopen( "/dev/null", "rb" ) : fmemopen( z.data(), z.size(), "rb" );
               {
                  p::cstream_input<> in( f, 16, "src" );
                  cmp( "cstream_input", observe( in ) );
               }
               std::fclose( f );
            }
            // stock readers behind a tiny buffer: a request that ends exactly at the end of the buffer must not make the library
            // ask the reader for zero bytes (istream / cstream readers report that as an I/O error)
            for( std::size_t mx = 1; mx <= 3; ++mx ) {
               {
                  std::istringstream ss( s );
                  p::istream_input< p::eol::lf_crlf, 1 > in( ss, mx, "src" );
                  const Obs o = observe( in );
                  ++vf::st.evaluations;
                  X.begin( {} );
                  if( o.kind != 3 && !o.same( ref ) ) report( "result differs from memory_input", "istream_input chunk 1, small maximum", 5, s, ref, o, wname );
               }
               {
                  std::string z = s;
                  std::FILE* f = z.empty() ? std::fopen( "/dev/null", "rb" ) : fmemopen( z.data(), z.size(), "rb" );
                  {
                     p::cstream_input< p::eol::lf_crlf, 1 > in( f, mx, "src" );
                     const Obs o = observe( in );
                     ++vf::st.evaluations;
                     X.begin( {} );
                     if( o.kind != 3 && !o.same( ref ) ) report( "result differs from memory_input", "cstream_input chunk 1, small maximum", 5, s, ref, o, wname );
                  }
                  std::fclose( f );
               }
            }
            buffer_runs< 1 >( "buffer_input chunk 1, ample maximum", 16, false, thorough ? 3 : 2, 5, s, ref, wname );
            buffer_runs< 2 >( "buffer_input chunk 2, ample maximum", 16, false, thorough ? 3 : 2, 5, s, ref, wname );
            buffer_runs< 64 >( "buffer_input chunk 64, ample maximum", 16, false, 1, 5, s, ref, wname );
            buffer_runs< 1 >( "buffer_input chunk 1, maximum 1", 1, true, 1, 5, s, ref, wname );
            buffer_runs< 2 >( "buffer_input chunk 2, maximum 2", 2, true, 1, 5, s, ref, wname );
         }

int main( int argc, char** argv )
{
   vf::parse_args( argc, argv );
   const bool thorough = vf::args.thorough();
   scratch = std::string( "build/scratch/c07_" ) + std::to_string( getpid() );
   mkdir( "build", 0777 );
   mkdir( "build/scratch", 0777 );
   mkdir( scratch.c_str(), 0777 );
   if( vf::args.replay ) {
      // case = <table of 5 rules>|<input hex>|<input class>|<read pattern>: everything is re-run for that table and input
      std::set_terminate( on_terminate );
      auto f = vf::split( vf::args.the_case, '|' );
      deser_tab( f[ 0 ] );
      const std::string s = vf::unhex( f[ 1 ] );
      {
         std::ofstream fo( file_for( s ), std::ios::binary );
         fo.write( s.data(), std::streamsize( s.size() ) );
      }
      run_case( s, "replay", vf::args.thorough() );
      std::remove( file_for( s ).c_str() );
      rmdir( scratch.c_str() );
      vf::finish();
      return 0;
   }

   std::set_terminate( on_terminate );
   struct Round
   {
      std::string sigma;
      int L;
      std::vector< const char* > root, inner;
      std::vector< std::string > fixed_inputs = {};  // instead of all strings over sigma
   };
   // byte-class round: NUL bytes, multi-byte UTF-8 sequences (complete and truncated) and case-insensitive strings at every
   // offset relative to the buffer boundaries
   std::vector< std::string > bc_inputs;
   {
      const std::vector< std::string > pre = { "", "a", std::string( 1, '\0' ), "aa", std::string( "a\0", 2 ), std::string( "\0a", 2 ), std::string( 2, '\0' ) };
      const std::vector< std::string > mid = { "", "\xF0\x90\x80\x80", "\xF0\x90\x80", "\xC3\xA9", "\xE2\x82\xAC", "ab", "aB", "AB" };
      for( const auto& a : pre )
         for( const auto& m : mid )
            for( const char* z : { "", "a" } ) bc_inputs.push_back( a + m + z );
      std::sort( bc_inputs.begin(), bc_inputs.end() );
      bc_inputs.erase( std::unique( bc_inputs.begin(), bc_inputs.end() ), bc_inputs.end() );
   }
   const std::vector< Round > rounds = {
      { "a\r\nb", thorough ? 5 : 4, { "ANY", "ONE_A", "STRING_AB", "EOL", "BYTES2", "REQUIRE2", "STAR", "PLUS", "OPT", "AT", "NOT_AT", "SEQ", "SOR", "MUST" }, { "ANY", "ONE_A", "STRING_AB", "EOF_", "EOL", "BYTES2", "REQUIRE2", "SUCCESS", "FAILURE", "STAR", "PLUS", "OPT", "AT", "NOT_AT", "SEQ", "SOR", "MUST" } },
      // hand-written multi-byte look-ahead of raw_string (opening bracket, closing bracket) across buffer refills
      { "[=]x", thorough ? 7 : 6, { "RAW", "SEQ", "SOR", "OPT" }, { "RAW", "ANY", "EOF_" } },
      { "bytes", 0, { "UTF8_ANY", "ISTRING_AB", "SEQ", "SOR", "STAR", "PLUS", "OPT" }, { "UTF8_ANY", "ISTRING_AB", "ANY", "ONE_A", "EOF_" }, bc_inputs },
   };
   auto ops = []( std::vector< const char* > v ) { std::vector< int > r; for( auto n : v ) r.push_back( op_by_name( n ) ); return r; };
   std::vector< std::string > all_files;
   for( const auto& round : rounds ) {
   const std::string sigma = round.sigma;
   const int L = round.L;
   std::vector< std::string > inputs;
   if( round.fixed_inputs.empty() )
      for_inputs( sigma, L, [ & ]( const std::string& s ) { inputs.push_back( s ); } );
   else
      inputs = round.fixed_inputs;
   // files for the file based inputs, once per input string
   for( const auto& s : inputs ) {
      std::ofstream f( file_for( s ), std::ios::binary );
      f.write( s.data(), std::streamsize( s.size() ) );
      all_files.push_back( file_for( s ) );
   }
   ProgEnum pe;
   pe.maxn = 2;
   pe.root = ops( round.root );
   pe.inner = ops( round.inner );
   long prog_index = 0;
   pe.run( [ & ]( int n ) {
      if( ( prog_index++ % vf::args.nshards ) != vf::args.shard ) return;
      if( vf::out_of_time() ) return;
      vf::count( round.sigma == "[=]x" ? "programs_raw_string_round" : round.sigma == "bytes" ? "programs_byte_class_round" : "programs_main_round" );
      // relocate the program to rules 3,4
      Entry prog[ 2 ] = { tab[ 0 ], tab[ 1 ] };
      for( int i = 0; i < 2; ++i ) {
         prog[ i ].a = uint8_t( prog[ i ].a + 3 );
         prog[ i ].b = uint8_t( prog[ i ].b + 3 );
         prog[ i ].c = uint8_t( prog[ i ].c + 3 );
      }
      const Entry save0 = tab[ 0 ], save1 = tab[ 1 ];
      for( int w = 0; w < 3; ++w ) {
         // w=0: seq< P, discard >   w=1: seq3< P, discard, P >   w=2: star< P, discard >
         tab[ 1 ] = { uint8_t( op_by_name( "DISCARD" ) ), 0, 0, 0 };
         tab[ 2 ] = { uint8_t( op_by_name( "EOF_" ) ), 0, 0, 0 };
         tab[ 3 ] = prog[ 0 ];
         tab[ 4 ] = ( n >= 2 ) ? prog[ 1 ] : Entry{ uint8_t( op_by_name( "FAILURE" ) ), 0, 0, 0 };
         const char* wname = "";
         switch( w ) {
            case 0:
               tab[ 0 ] = { uint8_t( op_by_name( "SEQ" ) ), 3, 1, 0 };
               wname = "seq<P,discard>";
               break;
            case 1:
               tab[ 0 ] = { uint8_t( op_by_name( "SEQ3" ) ), 3, 1, 3 };
               wname = "seq<P,discard,P>";
               break;
            case 2:
               tab[ 0 ] = { uint8_t( op_by_name( "STAR2" ) ), 3, 1, 0 };
               wname = "star<P,discard>";
               break;
         }
         ++vf::st.states;
         for( const auto& s : inputs ) run_case( s, wname, thorough );
      }
      tab[ 0 ] = save0;
      tab[ 1 ] = save1;
   } );
   }  // rounds
   // file based inputs at page-size boundaries: a JSON-like array padded to exactly n bytes, valid and with one bad byte at the end
   if( vf::args.shard == 1 % vf::args.nshards ) {
      for( unsigned i = 0; i < K; ++i ) tab[ i ] = { uint8_t( op_by_name( "FAILURE" ) ), 0, 0, 0 };
      // n0 = seq( n3, n2 )   n3 = star( n4 )   n4 = one<'a'> | eol  ->  use STAR over SOR-free atoms: star( any ) would accept everything, so:
      tab[ 0 ] = { uint8_t( op_by_name( "SEQ" ) ), 3, 2, 0 };
      tab[ 2 ] = { uint8_t( op_by_name( "EOF_" ) ), 0, 0, 0 };
      tab[ 3 ] = { uint8_t( op_by_name( "STAR" ) ), 4, 0, 0 };
      tab[ 4 ] = { uint8_t( op_by_name( "ONE_A" ) ), 0, 0, 0 };
      const size_t page = size_t( sysconf( _SC_PAGESIZE ) );
      for( size_t n : { size_t( 0 ), size_t( 1 ), page - 1, page, page + 1, 2 * page, 2 * page + 1 } ) {
         for( int bad = 0; bad < 2; ++bad ) {
            std::string s( n, 'a' );
            if( bad && n > 0 ) s[ n - 1 ] = 'b';
            const std::string path = scratch + "/page_" + std::to_string( n ) + "_" + std::to_string( bad );
            {
               std::ofstream f( path, std::ios::binary );
               f.write( s.data(), std::streamsize( s.size() ) );
            }
            all_files.push_back( path );
            Obs ref;
            {
               p::memory_input<> in( s.data(), s.data() + s.size(), "src" );
               ref = observe( in );
            }
            ref.tr.clear();  // the trace of a 8k star is not interesting; results and positions are
            auto cmpf = [ & ]( const char* cls, Obs o ) {
               o.tr.clear();
               ++vf::st.evaluations;
               X.begin( {} );
               if( !o.same( ref ) ) report( "result differs from memory_input", cls, 5, "<" + std::to_string( n ) + " bytes>", ref, o, "seq<star<one<a>>,eof> on a file of page-boundary size" );
            };
            {
               p::read_input<> in( path, "src" );
               cmpf( "read_input, page-boundary file size", observe( in ) );
            }
            {
               p::mmap_input<> in( path, "src" );
               cmpf( "mmap_input, page-boundary file size", observe( in ) );
            }
            {
               p::file_input<> in( path, "src" );
               cmpf( "file_input, page-boundary file size", observe( in ) );
            }
            vf::count( "page_boundary_files" );
         }
      }
   }
   // the `everything` rule on an incremental input whose buffer cannot hold the rest of the stream
   if( vf::args.shard == 0 ) {
      for( unsigned i = 0; i < K; ++i ) tab[ i ] = { uint8_t( op_by_name( "FAILURE" ) ), 0, 0, 0 };
      tab[ 0 ] = { uint8_t( op_by_name( "SEQ" ) ), 3, 2, 0 };
      tab[ 2 ] = { uint8_t( op_by_name( "EOF_" ) ), 0, 0, 0 };
      tab[ 3 ] = { uint8_t( op_by_name( "EVERYTHING" ) ), 0, 0, 0 };
      for( const std::string s : { std::string( "ab" ), std::string( "abababab" ), std::string( 40, 'a' ) } ) {
         Obs ref;
         {
            p::memory_input<> in( s.data(), s.data() + s.size(), "src" );
            ref = observe( in );
         }
         X.begin( {} );
         X.bound = 0;
         p::buffer_input< XReader, p::eol::lf_crlf, std::string, 2 > in( "src", 4, s.data(), s.size() );
         const Obs o = observe( in );
         ++vf::st.evaluations;
         if( o.kind != 3 && !o.same( ref ) ) report( "everything consumes only what fits into the buffer instead of the rest of the stream", "buffer_input chunk 2, maximum 4", 5, s, ref, o, "seq<everything,eof>" );
      }
   }
   vf::count( "divergent_skipped", n_divergent );
   vf::st.states += X.nodes + vf::st.evaluations;
   vf::st.transitions += X.nodes + X.edges + vf::st.evaluations;
   // scratch files
   for( const auto& f : all_files ) std::remove( f.c_str() );
   rmdir( scratch.c_str() );
   vf::finish();
   return 0;
}
