// Exploration spaces of the table-engine harness (tmain.cpp).  Select one with -DSPACE_<NAME>.
#pragma once

#if defined( SPACE_CORE )
#define VERIF_K 3
#define VERIF_GROUPS ( T::G_CORE | T::G_CORE3 | T::G_HOLE )
#define VERIF_FAMS ( 1 | 2 | 4 | 8 )
#define VERIF_CTLS 1
#elif defined( SPACE_CORE4 )
#define VERIF_K 4
#define VERIF_GROUPS ( T::G_CORE | T::G_HOLE )
#define VERIF_FAMS ( 1 | 8 )
#define VERIF_CTLS 1
#elif defined( SPACE_CONV )
#define VERIF_K 4
#define VERIF_GROUPS ( T::G_CORE | T::G_CONV | T::G_CONV3 | T::G_REP | T::G_HOLE | T::G_REMATCH | T::G_ATOM2 )
#define VERIF_FAMS ( 1 | 2 )
#define VERIF_CTLS 1
#elif defined( SPACE_EXC )
#define VERIF_K 4
#define VERIF_GROUPS ( T::G_CORE | T::G_CONV | T::G_EXC | T::G_HOLE )
#ifndef EXC_CTL
#define EXC_CTL 0
#endif
#if EXC_CTL == 0
#define VERIF_FAMS ( 1 | 2 | ( 1 << 20 ) )
#else
#define VERIF_FAMS ( 1 | 2 )
#endif
#define VERIF_CTLS ( 1 << EXC_CTL )
#elif defined( SPACE_ACT )
#ifndef ACT_LAZY
#define ACT_LAZY 0
#endif
#define VERIF_K 3
#define VERIF_GROUPS ( T::G_CORE | T::G_ACT | T::G_HOLE )
#ifndef ACT_CTL
#define ACT_CTL 0
#endif
#if ACT_LAZY
#define VERIF_TRACK p::tracking_mode::lazy
#endif
#if ACT_CTL == 0
#define VERIF_FAMS ( 2 | 4 | 8 | 16 | 32 | 64 | 128 )
#else
#define VERIF_FAMS ( 32 | 128 )
#endif
#define VERIF_CTLS ( 1 << ACT_CTL )
#elif defined( SPACE_COV )
#define VERIF_K 3
#define VERIF_GROUPS ( T::G_CORE | T::G_MUST | T::G_EXC )
#define VERIF_FAMS ( 2 | 32 )
#define VERIF_CTLS 1
#define VERIF_COV
#elif defined( SPACE_TREE )
// -DTREE_SEL=k selects the selector / transformer variant (engine/tree.hpp)
#define VERIF_K 3
#define VERIF_GROUPS ( T::G_CORE | T::G_CORE3 | T::G_REP | T::G_MUST | T::G_EXC | T::G_HOLE )
#define VERIF_FAMS ( 1 | 2 | 32 | 64 )
#define VERIF_CTLS 1
#define VERIF_TREE
#elif defined( SPACE_LIMITS )
#define VERIF_K 3
#define VERIF_GROUPS ( T::G_CORE | T::G_CONV | T::G_ATOM2 )
#define VERIF_FAMS ( ( 1 << 8 ) | ( 1 << 9 ) | ( 1 << 10 ) | ( 1 << 11 ) )
#define VERIF_CTLS 1
#define VERIF_DEPTH_INPUT
#elif defined( SPACE_SCOPES )
#define VERIF_K 4
#define VERIF_GROUPS ( T::G_CORE | T::G_ACT | T::G_STATE | T::G_REMATCH )
#define VERIF_FAMS ( ( 1 << 12 ) | ( 1 << 13 ) | ( 1 << 14 ) | ( 1 << 16 ) | ( 1 << 17 ) | ( 1 << 18 ) | ( 1 << 19 ) )
#define VERIF_CTLS 8
#elif defined( SPACE_ATOMS )
// library atoms (ascii convenience + contrib) under every one-level context, on guard-paged inputs; -DATOMS_LAZY=0|1
#define VERIF_K 4
#define VERIF_GROUPS ( T::G_CORE | T::G_ATOM2 | T::G_ATOM3 | T::G_CONTRIB | T::G_POS )
#define VERIF_FAMS ( 1 | 2 )
#define VERIF_CTLS 1
#if ATOMS_LAZY
#define VERIF_TRACK p::tracking_mode::lazy
#endif
#elif defined( SPACE_POS )
// -DVERIF_TRACK=... -DVERIF_EOL=... -DVERIF_EOL_KIND=n -DPOS_LAZY=0|1 come from the registry
#define VERIF_K 3
#if POS_LAZY
#define VERIF_GROUPS ( T::G_CORE | T::G_CONV | T::G_ATOM2 | T::G_POS | T::G_POS2 | T::G_PRED | T::G_REMATCH )
#else
#define VERIF_GROUPS ( T::G_CORE | T::G_CONV | T::G_ATOM2 | T::G_POS | T::G_POS2 | T::G_PRED | T::G_REMATCH | T::G_BOL )
#endif
#define VERIF_FAMS ( 1 | 2 )
#define VERIF_CTLS 1
#else
#error "select a space"
#endif

#include "../engine/pipeline.hpp"

struct Phase
{
   const char* name;
   std::vector< const char* > root, inner;
   int N = 3, L = 3, Lmin = 0;
   std::string sigma = "abc";
   std::vector< PL::Cfg > cfgs;
   bool hole_may_throw = false, act_may_veto = false, act_may_throw = false, hole_bounded = false;
   int dev_bound = 1 << 30;
   bool need_hole = false;
   int max_holes = 99;
   std::vector< std::array< size_t, 3 > > counters = { { 0, 1, 1 } };  // initial byte, line, column of the input
   std::vector< int > buf_modes = { 0 };  // 0 heap, 1 guard page after the input, 2 guard page before it
   std::vector< std::string > extra_inputs;
   bool flat_inner = false;  // rules other than the root may only have HOLE / atom children (depth-2 trees, shared leaves allowed)
};

static std::vector< PL::Cfg > cfg_product( std::vector< int > fams, std::vector< int > ctls, std::vector< int > As, std::vector< int > Ms )
{
   std::vector< PL::Cfg > r;
   for( int f : fams )
      for( int c : ctls )
         for( int a : As )
            for( int m : Ms ) r.push_back( { f, c, a, m } );
   return r;
}

#define CORE_ATOMS "ANY", "ONE_A", "NOT_ONE_A", "RANGE_AB", "STRING_AB", "EOF_", "SUCCESS", "FAILURE"
#define CORE_OPS "STAR", "PLUS", "OPT", "AT", "NOT_AT", "SEQ", "SOR"
#define CORE_OPS3 "SEQ1", "SOR1", "SEQ3", "SOR3", "STAR2", "PLUS2", "OPT2", "AT2", "NOT_AT2"
#define CONV_OPS "IF_THEN_ELSE", "IF_MUST", "OPT_MUST", "IF_MUST_ELSE", "MUST", "MUST2", "STAR_MUST", "LIST", "LIST_MUST", "LIST_TAIL", "MINUS", "REMATCH", "PAD", "PAD_OPT", "PARTIAL1", "PARTIAL", "STAR_PARTIAL1", "STAR_PARTIAL", "STRICT1", "STRICT", "STAR_STRICT1", "STAR_STRICT", "UNTIL1", "UNTIL2"
#define CONV_OPS3 "IF_MUST3", "OPT_MUST3", "STAR_MUST3", "LIST3", "LIST_MUST3", "LIST_TAIL3", "REMATCH3", "PAD3", "PARTIAL3", "STAR_PARTIAL3", "STRICT3", "STAR_STRICT3", "UNTIL3"
#define REP_OPS "REP0", "REP1", "REP2", "REP3", "REP4", "REP2_2", "REP_MIN0", "REP_MIN1", "REP_MIN2", "REP_MIN3", "REP_MIN4", "REP_MIN2_2", "REP_MIN1_2", "REP_MIN0_2", "REP_MAX0", "REP_MAX1", "REP_MAX2", "REP_MAX3", "REP_MAX4", "REP_OPT1", "REP_OPT2", "REP_OPT3", "REP_OPT4", "REP_OPT2_2", "RMM00", "RMM01", "RMM02", "RMM03", "RMM04", "RMM11", "RMM12", "RMM13", "RMM14", "RMM22", "RMM23", "RMM24", "RMM33", "RMM34", "RMM44", "RMM12_2"
#define EXC_OPS "RAISE_OF", "RAISE_MSG", "TC_RN_MSG", "TC_RF", "TC_ANY_RF", "TC_STD_RF", "TC_TYPE_RF", "TC_RN", "TC_ANY_RN", "TC_STD_RN", "TC_TYPE_RN", "TC_RF2"
#define MUST_OPS "MUST", "MUST2", "IF_MUST", "OPT_MUST", "IF_MUST_ELSE", "STAR_MUST", "LIST_MUST"

struct Space
{
   const char* result_prop = "C01";
   const char* exc_prop = "C05";
   bool check_hooks = false, check_actions = true, check_positions = false, check_scopes = false;
   const char* hook_prop = "C03";
   long fuel = 3000;     // rule entries allowed to the implementation per execution
   long ref_fuel = 500;   // backstop for the reference (true divergence is detected structurally)
   long max_exec_per_prog = 2000000;
   std::vector< Phase > phases;

   void configure( bool thorough )
   {
      (void)thorough;
#if defined( SPACE_CORE )
      result_prop = "C01";
      {
         Phase p;
         p.name = "closed_programs";
         p.root = { CORE_ATOMS, CORE_OPS, CORE_OPS3 };
         p.inner = p.root;
         p.N = 3;
         p.L = 4;
         p.sigma = "abc";
         p.cfgs = cfg_product( { 0, 1, 2, 3 }, { 0 }, { 1, 0 }, { 1, 0 } );
         if( !thorough ) {
            // quick: two-rule programs over the full menu, three-rule programs over the classical (unary/binary) operators
            Phase q = p;
            q.name = "closed_programs_n2_full_menu";
            q.N = 2;
            phases.push_back( q );
            p.name = "closed_programs_n3";
            p.root = { CORE_ATOMS, CORE_OPS };
            p.inner = p.root;
            p.cfgs = cfg_product( { 0, 3 }, { 0 }, { 1, 0 }, { 1, 0 } );
         }
         phases.push_back( p );
      }
      {
         Phase p;
         p.name = "open_programs";
         p.root = { CORE_OPS, CORE_OPS3 };
         p.inner = { "HOLE", "ANY", "EOF_", CORE_OPS, "SEQ1", "SOR1" };
         p.N = 3;
         p.L = 3;
         p.Lmin = 2;
         p.sigma = "x";
         p.need_hole = true;
         p.cfgs = cfg_product( { 0, 3 }, { 0 }, { 1 }, { 1, 0 } );
         phases.push_back( p );
      }
#elif defined( SPACE_CORE4 )
      result_prop = "C01";
      {
         Phase p;
         p.name = "closed_programs_n4";
         p.root = { "ANY", "ONE_A", "STRING_AB", "EOF_", CORE_OPS };
         p.inner = p.root;
         p.N = 4;
         p.L = 3;
         p.sigma = "ab";
         p.cfgs = cfg_product( { 0, 3 }, { 0 }, { 1 }, { 1, 0 } );
         phases.push_back( p );
      }
#elif defined( SPACE_CONV )
      result_prop = "C09";
      {
         Phase p;
         p.name = "convenience_root_over_holes";
         p.root = { CONV_OPS, CONV_OPS3, REP_OPS };
         p.inner = { "HOLE" };
         p.N = 4;
         p.L = thorough ? 5 : 4;
         p.Lmin = 2;
         p.sigma = "x";
         p.need_hole = true;
         p.cfgs = cfg_product( { 0, 1 }, { 0 }, { 1 }, { 1, 0 } );  // with and without actions on every rule (who holds the rewind guard changes)
         phases.push_back( p );
      }
      {
         Phase p;
         p.name = "convenience_under_core_operator";
         p.root = { CORE_OPS };
         p.inner = { "HOLE", CONV_OPS, REP_OPS };
         p.flat_inner = true;
         p.N = 4;
         p.L = thorough ? 5 : 4;
         p.Lmin = 2;
         p.sigma = "x";
         p.need_hole = true;
         p.cfgs = cfg_product( { 0 }, { 0 }, { 1 }, { 1, 0 } );
         phases.push_back( p );
      }
      {
         Phase p;
         p.name = "convenience_over_core_operator";
         p.root = { CONV_OPS, REP_OPS };
         p.inner = { "HOLE", "SEQ", "SOR", "STAR", "OPT", "NOT_AT" };
         p.flat_inner = true;
         p.N = 4;
         p.L = thorough ? 5 : 4;
         p.Lmin = 2;
         p.sigma = "x";
         p.need_hole = true;
         p.cfgs = cfg_product( { 0 }, { 0 }, { 1 }, { 1, 0 } );
         phases.push_back( p );
      }
      {
         // rematch / minus re-run the matched text as an input of its own: its end is the end of the match, not a line end
         Phase p;
         p.name = "rematch_minus_with_line_ends";
         p.root = { "MINUS", "REMATCH", "REMATCH3" };
         p.inner = { "ANY", "ONE_A", "EOF_", "EOLF", "EOL", "PLUS", "STAR", "SEQ" };
         p.N = 3;
         p.L = 3;
         p.sigma = "a\n";
         p.cfgs = cfg_product( { 0 }, { 0 }, { 1 }, { 1, 0 } );
         phases.push_back( p );
      }
      {
         Phase p;
         p.name = "convenience_closed";
         p.root = { CONV_OPS, CONV_OPS3, REP_OPS };
         p.inner = { "ANY", "ONE_A", "STRING_AB", "EOF_", "SUCCESS" };
         p.N = 4;
         p.L = thorough ? 7 : 6;
         p.sigma = "ab";
         p.cfgs = cfg_product( { 0 }, { 0 }, { 1 }, { 1, 0 } );
         phases.push_back( p );
      }
#elif defined( SPACE_EXC )
      result_prop = "C05";
      check_hooks = true;
      {
         Phase p;
         p.name = "must_family_over_throwing_holes";
         p.root = { MUST_OPS, EXC_OPS, CORE_OPS };
         p.inner = { "HOLE", MUST_OPS, EXC_OPS };
         p.N = 3;
         p.L = 2;
         p.Lmin = 2;
         p.sigma = "x";
         p.need_hole = true;
         p.hole_may_throw = true;
         p.cfgs = cfg_product( { 0 }, { EXC_CTL }, { 1 }, { 1, 0 } );
#if EXC_CTL == 0
         p.cfgs.push_back( { 20, 0, 1, 1 } );  // control_action hooks at the action level, actions enabled / disabled at top level
         p.cfgs.push_back( { 20, 0, 0, 1 } );
#endif
         phases.push_back( p );
      }
      {
         // exceptions that start inside a rule with the plain match( in ) signature (a terminal): unwind for the terminal too
         Phase p;
         p.name = "terminal_holes_throwing";
         p.root = { MUST_OPS, EXC_OPS, CORE_OPS };
         p.inner = { "THOLE", "SEQ", "TC_ANY_RF", "MUST" };
         p.N = 3;
         p.L = 2;
         p.Lmin = 2;
         p.sigma = "x";
         p.need_hole = true;
         p.hole_may_throw = true;
         p.cfgs = cfg_product( { 0 }, { EXC_CTL }, { 1 }, { 1, 0 } );
         phases.push_back( p );
      }
      {
         Phase p;
         p.name = "exceptions_closed_with_throwing_actions";
         p.root = { MUST_OPS, EXC_OPS, CORE_OPS };
         p.inner = { "ANY", "ONE_A", "EOF_", MUST_OPS, "RAISE_OF", "RAISE_MSG", "TC_RF", "TC_ANY_RF", "TC_RN", "SEQ", "SOR", "STAR", "OPT", "AT", "NOT_AT" };
         p.N = 3;
         p.L = thorough ? 3 : 2;
         p.sigma = "a\nb";
         p.act_may_throw = true;
         p.dev_bound = thorough ? 2 : 1;
         p.cfgs = cfg_product( { 1 }, { EXC_CTL }, { 1 }, { 1, 0 } );
         phases.push_back( p );
      }
#elif defined( SPACE_ACT )
      result_prop = "C04";
      check_hooks = true;
      {
         Phase p;
         p.name = "actions_closed_with_vetoes";
         p.root = { CORE_OPS, "ENABLE", "DISABLE", "ANY", "IF_APPLY", "ACTION_SW" };
         p.inner = { "ANY", "ONE_A", "EOF_", "SUCCESS", CORE_OPS, "ENABLE", "DISABLE", "IF_APPLY", "APPLY", "APPLY0", "ACTION_SW" };
         p.N = 3;
         p.L = thorough ? 3 : 2;
         p.sigma = "ab";
         p.act_may_veto = true;
         p.act_may_throw = true;
         p.dev_bound = thorough ? 3 : 2;
#if ACT_CTL == 0
         p.cfgs = cfg_product( { 1, 2, 3, 4, 5, 6, 7 }, { 0 }, { 1, 0 }, { 1 } );
         auto more = cfg_product( { 5, 7 }, { 0 }, { 1 }, { 0 } );
         p.cfgs.insert( p.cfgs.end(), more.begin(), more.end() );
#else
         p.cfgs = cfg_product( { 5, 7 }, { ACT_CTL }, { 1 }, { 1, 0 } );
#endif
         phases.push_back( p );
      }
      {
         Phase p;
         p.name = "actions_open_with_vetoes";
         p.root = { CORE_OPS, "ENABLE", "DISABLE" };
         p.inner = { "HOLE", CORE_OPS, "ENABLE", "DISABLE" };
         p.N = 3;
         p.L = 2;
         p.Lmin = 2;
         p.sigma = "x";
         p.need_hole = true;
         p.max_holes = 1;
         p.act_may_veto = true;
         p.dev_bound = 2;
#if ACT_CTL == 0
         p.cfgs = cfg_product( { 3, 7 }, { 0 }, { 1 }, { 1, 0 } );
#else
         p.cfgs = cfg_product( { 7 }, { ACT_CTL }, { 1 }, { 1, 0 } );
#endif
         phases.push_back( p );
      }
#elif defined( SPACE_COV )
      result_prop = "C08";
      exc_prop = "C08";
      check_actions = false;
      check_hooks = true;
      {
         // only operators whose sub-rules are all table rules: coverage keys its map by rule name and visits subs_t,
         // and a table rule's subs_t lists table rules only (anonymous inner rules would be an artefact of the engine)
         Phase p;
         p.name = "coverage_counters";
         p.root = { "STAR", "PLUS", "OPT", "AT", "NOT_AT", "SEQ", "SOR", "MUST", "TC_RF", "TC_ANY_RF" };
         p.inner = { "ANY", "ONE_A", "EOF_", "SUCCESS", "STAR", "PLUS", "OPT", "AT", "NOT_AT", "SEQ", "SOR", "MUST", "TC_RF", "TC_ANY_RF" };
         p.N = 3;
         p.L = thorough ? 3 : 2;
         p.sigma = "ab";
         p.act_may_veto = true;
         p.act_may_throw = true;
         p.dev_bound = thorough ? 2 : 1;
         p.cfgs = cfg_product( { 1, 5 }, { 0 }, { 1 }, { 0 } );
         p.cfgs.push_back( { 1, 4, 1, 0 } );
         phases.push_back( p );
      }
#elif defined( SPACE_TREE )
      result_prop = "C12";
      exc_prop = "C12";
      check_actions = false;
      check_hooks = true;  // the user control under parse_tree (fixed-arity unwind) still sees a balanced protocol for selected rules
      {
         Phase p;
         p.name = "parse_tree_closed";
         p.root = { CORE_OPS, "TC_RF", "TC_ANY_RF", "TC_RN", "MUST" };
         p.inner = { "ANY", "ONE_A", "EOF_", "SUCCESS", CORE_OPS, "TC_RF", "TC_ANY_RF", "TC_RN", "MUST" };
         p.N = 3;
         p.L = thorough ? 6 : 5;
         p.sigma = "ab";
         p.act_may_throw = true;
         p.act_may_veto = true;
         p.dev_bound = thorough ? 3 : 2;
         p.cfgs = cfg_product( { 0, 1, 5, 6 }, { 0 }, { 1 }, { 0 } );
         p.cfgs.push_back( { 0, 1, 1, 0 } );  // with a user state passed along
         p.cfgs.push_back( { 1, 1, 1, 0 } );
         phases.push_back( p );
         {
            // multi-rule forms (an anonymous seq<> frame sits between the rule and its sub-rules) and numeric repetitions
            Phase m = p;
            m.name = "parse_tree_closed_multi_rule_forms";
            m.root = { "SEQ3", "SOR3", "STAR2", "PLUS2", "OPT2", "RMM12_2", "RMM12", "REP2_2", "REP_MIN1_2", "REP_OPT2_2", "REP_MAX2", "SEQ", "SOR" };
            m.inner = { "ANY", "ONE_A", "EOF_", "SEQ", "SOR", "STAR2", "PLUS2", "OPT2", "RMM12_2", "REP2_2", "REP_MIN1_2", "REP_OPT2_2" };
            m.L = 4;
            m.act_may_throw = false;
            m.act_may_veto = false;
            m.cfgs = cfg_product( { 0 }, { 0 }, { 1 }, { 0 } );
            phases.push_back( m );
         }
#if TREE_SEL == 0
         {
            Phase e = p;
            e.name = "parse_tree_closed_must_if_plain_control";
            e.act_may_throw = false;
            e.act_may_veto = false;
            e.cfgs = cfg_product( { 0 }, { 6, 7 }, { 1 }, { 0 } );
            phases.push_back( e );
         }
#endif
         Phase q;
         q.name = "parse_tree_open";
         q.root = { CORE_OPS, "TC_RF", "TC_ANY_RF" };
         q.inner = { "HOLE", CORE_OPS, "TC_ANY_RF" };
         q.N = 3;
         q.L = 2;
         q.Lmin = 2;
         q.sigma = "x";
         q.need_hole = true;
         q.hole_may_throw = true;
         q.cfgs = cfg_product( { 0 }, { 0 }, { 1 }, { 0 } );
         phases.push_back( q );
      }
#elif defined( SPACE_LIMITS )
      result_prop = "C18";
      exc_prop = "C18";
      hook_prop = "C18";
      check_actions = false;
      {
         Phase p;
         p.name = "byte_limits";
         p.root = { CORE_OPS, "MUST", "UNTIL1" };
         p.inner = { "ANY", "ONE_A", "STRING_AB", "EOF_", "BYTES2", "EVERYTHING", "SUCCESS", CORE_OPS, "MUST", "UNTIL1" };
         p.N = 3;
         p.L = thorough ? 6 : 5;
         p.sigma = "ab";
         p.buf_modes = { 1 };
         p.counters = { { 0, 1, 1 }, { 7, 3, 5 } };  // the window is relative to the cursor, not to the input's byte counter
         p.cfgs = cfg_product( { 8, 9 }, { 0 }, { 1 }, { 1, 0 } );
         phases.push_back( p );
         Phase q = p;
         q.name = "depth_limits";
         q.inner = { "ANY", "ONE_A", "EOF_", "SUCCESS", CORE_OPS, "MUST" };
         q.cfgs = cfg_product( { 10, 11 }, { 0 }, { 1 }, { 1, 0 } );
         q.buf_modes = { 0 };
         phases.push_back( q );
      }
#elif defined( SPACE_SCOPES )
      result_prop = "C13";
      exc_prop = "C13";
      check_actions = false;
      check_scopes = true;
      {
         Phase p;
         p.name = "state_action_control_scopes";
         p.root = { CORE_OPS, "STATE", "STATE_D", "ENABLE", "DISABLE", "CONTROL_SW", "ACTION_FAMALT" };
         p.inner = { "ANY", "ONE_A", "EOF_", CORE_OPS, "STATE", "STATE_D", "DISABLE", "CONTROL_SW" };
         p.N = thorough ? 4 : 4;
         p.L = thorough ? 3 : 2;
         p.sigma = "ab";
         p.flat_inner = false;
         p.cfgs = cfg_product( { 12, 13, 14, 16, 17, 18, 19 }, { 3 }, { 1, 0 }, { 1 } );
         phases.push_back( p );
         {
            // the action<> rule switching the family below disabled sections / predicates with a re-enabled part inside;
            // control switches around the three-argument rematch (every re-matched rule runs under the control in force)
            Phase q = p;
            q.name = "action_rule_switch_and_rematch_under_switched_control";
            q.root = { "DISABLE", "AT", "SEQ", "CONTROL_SW" };
            q.inner = { "ANY", "ONE_A", "ENABLE", "ACTION_FAMALT", "SEQ", "REMATCH3", "CONTROL_SW" };
            q.cfgs = cfg_product( { 12, 14 }, { 3 }, { 1, 0 }, { 1 } );
            phases.push_back( q );
         }
      }
#elif defined( SPACE_ATOMS )
      result_prop = "C09";
      check_positions = true;
      {
         // each family of atoms with its own alphabet, as root, and one level below every classical operator
         struct Fam
         {
            const char* name;
            std::vector< const char* > atoms;
            std::string sigma;
            int L;
            std::vector< std::string > extra;
         };
         const std::string a41( 41, 'a' ), a42( 42, 'a' ), a43( 43, 'a' );
         const std::vector< Fam > fams = {
            { "atoms_integer", { "INT_U", "INT_S", "INT_MAX8", "INT_MAX300" }, "0125-+x", thorough ? 5 : 4, { "255", "256", "299", "300", "301", "2550", "65536", "-255x", "+300", "0300" } },
            { "atoms_raw_string", { "RAW" }, "[=]\nx", thorough ? 8 : 6, {} },
            { "atoms_ascii", { "KEYWORD_AB", "IDENTIFIER", "TWO_A", "THREE_A", "RANGES_ACX", "REP_STRING2_AB", "ROMM12_A", "ROMM02_A", "ROMM22_A", "ROMM00_A", "PRED_AND", "PRED_NOT", "PRED_OR", "ISTRING_AB", "STRING_AB", "BYTES2", "EVERYTHING" }, "abAc_1", thorough ? 5 : 4, {} },
            { "atoms_lines", { "SHEBANG", "EOL", "EOLF", "UTF8_ANY", "STRING_CRLF", "BOF" }, std::string( "#!a\n\r\xC3\xA9" ), thorough ? 5 : 4, {} },
            { "atoms_forty_two", { "FORTY_TWO_A" }, "a", 0, { a41, a42, a43, a42 + "b", a41 + "b", "b" + a42, a41 + "ba" } },
         };
         {
            // contrib combinators (separated_seq, if_then chains) over consuming / nullable / failing leaves
            Phase p;
            p.name = "contrib_combinators";
            p.root = { "SEPARATED_SEQ", "IF_THEN_ELSE_THEN", "IF_THEN", "IF_THEN_CHAIN" };
            p.inner = { "ANY", "ONE_A", "STRING_AB", "EOF_", "SUCCESS", "ISTRING_AB", "ROMM02_A", "BYTES2" };
            p.N = 4;
            p.L = thorough ? 5 : 4;
            p.sigma = "abA";
            p.buf_modes = { 1 };
            p.cfgs = cfg_product( { 0, 1 }, { 0 }, { 1 }, { 1, 0 } );
            phases.push_back( p );
         }
         for( const auto& f : fams ) {
            Phase p;
            p.name = f.name;
            p.root = { CORE_OPS };
            for( auto a : f.atoms ) p.root.push_back( a );
            p.inner = { "ANY", "EOF_" };
            for( auto a : f.atoms ) p.inner.push_back( a );
            p.N = 3;
            p.flat_inner = true;
            p.L = f.L;
            p.sigma = f.sigma;
            p.extra_inputs = f.extra;
            p.buf_modes = { 1, 2 };
            p.counters = { { 0, 1, 1 } };
            p.cfgs = cfg_product( { 0, 1 }, { 0 }, { 1 }, { 1, 0 } );
            phases.push_back( p );
         }
      }
#elif defined( SPACE_POS )
      result_prop = "C06";
      exc_prop = "C06";
      check_positions = true;
      {
#if POS_LAZY
#define POS_BOL
#else
#define POS_BOL "BOL",
#endif
         Phase p;
         p.name = "positions_closed_n3";
         p.root = { "SEQ", "SOR", "STAR", "OPT", "AT", "NOT_AT", "UNTIL1", "UNTIL2", "PLUS", "REMATCH", "REMATCH3", "MINUS", "MUST", "IF_MUST" };
         p.inner = { "ANY", "ONE_LF", "ONE_CR", "NOT_ONE_A", "NOT_ONE_LF", "SEVEN", "STRING_CRLF", "EOL", "EOLF", "BYTES2", "EVERYTHING", "UTF8_ANY", "PRED_NOT", "PRED_AND", "BOF", POS_BOL "EOF_", "SEQ", "SOR", "STAR", "OPT", "AT", "NOT_AT", "UNTIL1", "UNTIL2", "REMATCH", "MUST" };
         p.N = 3;
         p.L = thorough ? 4 : 3;
         p.sigma = std::string( "a\n\r\xC3\xA9" );
         p.counters = { { 0, 1, 1 }, { 7, 3, 5 } };
         p.cfgs = cfg_product( { 1 }, { 0 }, { 1 }, thorough ? std::vector< int >{ 1, 0 } : std::vector< int >{ 1 } );
         p.flat_inner = !thorough;
         phases.push_back( p );
         Phase q = p;
         q.name = "positions_closed_n2";
         q.N = 2;
         q.L = thorough ? 6 : 4;
         q.flat_inner = false;
         q.cfgs = cfg_product( { 1 }, { 0 }, { 1 }, { 1, 0 } );
         phases.push_back( q );
         // every way a class rule decides, at compile time, whether it may consume the eol character (bump() vs
         // bump_in_this_line()): packs with the eol character first / last, even / odd packs, strings, utf8:: and uint8::
         // forms, masked comparisons
         Phase b;
         b.name = "bump_selection_of_class_rules";
         b.root = { "STAR", "SEQ", "UNTIL2" };
         b.inner = { "ONE_A_LF_CR", "ONE_LF_CR_A", "RANGE_TAB_CR", "NOT_RANGE_AB", "RANGES_EOL_LAST", "RANGES_EOL_FIRST", "RANGES_ODD_LF", "RANGES_ODD_CR", "STRING_A_LF", "STRING_CR_A", "ISTRING_A_LF", "ISTRING_CR_A", "U8_ONE_A_LF_CR", "U8_NOT_ONE_A", "U8_RANGE_TAB_CR", "U8_NOT_RANGE_AB", "U8_RANGES_EOL_LAST", "UINT8_ANY", "UINT8_ONE_LF_CR", "UINT8_MASK_ONE", "UINT8_MASK_NOT_ONE", "UINT8_MASK_RANGE", "UINT8_MASK_NOT_RANGE", "UINT8_MASK_RANGES", "UINT8_MASK_RANGE2", "UINT8_MASK_RANGES2", "UINT8_MASK_NOT_ONE2", "EOF_", "ANY" };
         b.N = 3;
         b.flat_inner = true;
         b.L = thorough ? 4 : 3;
         b.sigma = std::string( "a\n\r" );
         b.counters = { { 0, 1, 1 } };
         b.cfgs = cfg_product( { 1 }, { 0 }, { 1 }, { 1 } );
         phases.push_back( b );
      }
#endif
   }
};
