// Table-engine harness.  One source, several "spaces" (selected with -DSPACE_<name>); every space
// enumerates programs x inputs x configurations x environment answers exhaustively inside its bound,
// runs each execution on the implementation and on the reference interpreter, and reports under the
// property the judgement belongs to (signature prefix "Cxx|").
#include "spaces.hpp"  // defines VERIF_K, VERIF_GROUPS, VERIF_FAMS, VERIF_CTLS and struct Space

#include "../engine/pipeline.hpp"
#ifdef VERIF_TREE
#include "../engine/tree.hpp"
#endif
#ifdef VERIF_COV
#include <tao/pegtl/contrib/coverage.hpp>
#endif

#include <algorithm>

using namespace PL;

static Space S;
static R::Interp RI;
static long n_divergent = 0, n_fuel_both = 0, n_capped = 0;

struct Menus
{
   std::vector< int > root, inner;
};

static std::vector< int > ops_of( const std::vector< const char* >& names )
{
   std::vector< int > r;
   for( auto n : names ) r.push_back( op_by_name( n ) );
   return r;
}

// ---------------------------------------------------------------- hook protocol automaton (C08)
static std::string check_hooks( bool has_unwind, bool& action_exc_defect )
{
   struct F
   {
      int rule, kind, enabled, state;
   };
   std::vector< F > st;
   action_exc_defect = false;
   for( size_t i = 0; i < L.ev.size(); ++i ) {
      const Ev& e = L.ev[ i ];
      switch( e.type ) {
         case E_ENTER: st.push_back( { e.rule, e.kind, e.enabled, 0 } ); break;
         case E_START:
            if( st.empty() || st.back().rule != e.rule || !st.back().enabled || st.back().state != 0 ) return "start hook out of protocol";
            st.back().state = 1;
            break;
         case E_APPLY:
         case E_APPLY0:
#ifdef VERIF_TREE
            if( !st.empty() && st.back().rule == e.rule && st.back().state == 0 && TR::hooks_optional( st.back().rule, st.back().kind ) ) {
               st.back().state = 7;  // parse_tree forwards apply, but not start/success/failure, of an unselected rule
               break;
            }
#endif
            if( st.empty() || st.back().rule != e.rule || st.back().state != 1 ) return "apply hook out of protocol";
            st.back().state = 2;
            break;
         case E_ACT:
            if( st.empty() || st.back().rule != e.rule || ( st.back().state != 2 && st.back().state != 7 ) ) return "action ran outside its apply hook";
            break;
         case E_SUCCESS:
            if( st.empty() || st.back().rule != e.rule || ( st.back().state != 1 && st.back().state != 2 ) ) return "success hook out of protocol";
            st.back().state = 3;
            break;
         case E_FAILURE:
            if( st.empty() || st.back().rule != e.rule || ( st.back().state != 1 && st.back().state != 2 ) ) return "failure hook out of protocol";
            st.back().state = 4;
            break;
         case E_FAIL_RAISE:  // must_if: this rule failed locally and its table entry turns that into a raise (outside the unwind guard)
            if( st.empty() || st.back().rule != e.rule || ( st.back().state != 1 && st.back().state != 2 ) ) return "failure hook out of protocol";
            st.back().state = 6;
            break;
         case E_UNWIND:
            if( st.empty() || st.back().rule != e.rule || ( st.back().state != 1 && st.back().state != 2 ) ) return "unwind hook out of protocol";
            st.back().state = 5;
            break;
         case E_RAISE:
            if( st.empty() ) return "raise outside any rule";
            if( st.back().state == 6 && st.back().rule == e.rule ) break;  // must_if: the failure hook raises through the base control
            if( st.back().kind != RK_MUST && st.back().kind != RK_RAISE ) {
               // a table rule that *is* must< R > / raise< R > (node<I>::match dispatches to it directly)
               const int op = st.back().kind == RK_NODE ? tab[ st.back().rule ].op : -1;
               if( op != MUST && op != RAISE_OF && op != RAISE_MSG && op != TC_RN_MSG ) return "raise outside a must-context or raise rule";
            }
            break;
         case E_EXIT_T:
         case E_EXIT_F:
         case E_EXIT_X: {
            if( st.empty() || st.back().rule != e.rule ) return "unbalanced rule exit";
            const F f = st.back();
            st.pop_back();
            if( !f.enabled ) {
               if( f.state != 0 ) return "hooks ran for a rule whose control is disabled";
               break;
            }
#ifdef VERIF_TREE
            if( ( f.state == 0 || f.state == 7 ) && TR::hooks_optional( f.rule, f.kind ) ) break;
#endif
            if( e.type == E_EXIT_T && f.state != 3 ) return "rule returned true without exactly one success hook";
            if( e.type == E_EXIT_F && f.state != 4 ) return "rule returned false without exactly one failure hook";
            if( e.type == E_EXIT_X ) {
               if( has_unwind ) {
                  if( f.state == 2 ) {
                     action_exc_defect = true;  // start, apply, then the exception left without unwind
                     break;
                  }
                  if( f.state == 0 ) break;  // exception before start (cannot happen with these controls)
                  if( f.state == 6 ) break;  // must_if raise_on_failure: the failure was turned into the exception
                  if( f.state != 5 ) return "exception left a rule attempt without unwind (state " + std::to_string( f.state ) + ")";
               }
               else if( f.state != 1 && f.state != 2 )
                  return "exception exit after a terminal hook";
            }
            break;
         }
      }
   }
   if( !st.empty() ) return "attempts left open at the end of the run";
   return "";
}

// monitor controls: plain (0), without unwind (1), all rules enabled (2), must_if tables over the monitor (4, 5),
// the monitor behind remove_first_state (8), the monitor while an unrelated exception is in flight (10)
static bool hooks_checked_for( int ctl )
{
   return ctl <= 2 || ctl == 4 || ctl == 5 || ctl == 8 || ctl == 10;
}

// ---------------------------------------------------------------- one execution
static long exec_in_prog = 0;
#ifdef VERIF_COV
static p::coverage_result cov_result;
static std::string cov_threw;
#endif

static void report( const char* pid, const std::string& what, const Case& c, const std::string& extra = "", bool with_root = true )
{
   const std::string sig = std::string( pid ) + "|" + what + ( with_root ? std::string( "|root=" ) + opinfo[ tab[ 0 ].op ].name : std::string() );
   vf::violation( sig, "\"table\":\"" + vf::jesc( show_tab( c.nrules ) ) + "\",\"input\":\"" + vf::jesc( vf::show( c.input ) ) + "\",\"cfg\":\"" + c.cfg.str() + "\",\"choices\":\"" + X.str() + "\"" + ( extra.empty() ? "" : ",\"info\":\"" + vf::jesc( extra ) + "\"" ), c.str( X.str() ) );
}

static uint64_t g_prog_hash = 0;
static const Case* g_current_case = nullptr;

static void one_execution( const Case& c, const std::vector< int >& pre, bool verbose = false )
{
   Buf buf( c.input );
   X.begin( pre );
   memo.clear();
   g_begin = buf.p;
   L.record_events = S.check_hooks && hooks_checked_for( c.cfg.ctl );
   g_errors = ( c.cfg.ctl == 4 || c.cfg.ctl == 6 || c.cfg.ctl == 9 ) ? 1 : ( c.cfg.ctl == 5 || c.cfg.ctl == 7 ) ? 2 : 0;
   monitor_frames = ( c.cfg.ctl < 6 || c.cfg.ctl == 8 || c.cfg.ctl == 10 );  // controls 6, 7 and 9 are must_if over the plain normal control: no monitor frames
   g_current_case = &c;
   // the reference runs first: where it diverges there is no PEG result to compare with (DESIGN §3.1)
   RI.data = buf.p;
   RI.act_family = c.cfg.fam;
   RI.eol_kind = VERIF_EOL_KIND;
   RI.reset( S.ref_fuel );
   bool div = false;
   R::Res o{};
   try {
      o = RI.ev( 0, 0, int( buf.n ), R::Ctx{ c.cfg.A, c.cfg.fam, -1, 1 } );
   }
   catch( const R::Diverge& d ) {
      div = true;
   }
   ++exec_in_prog;
   if( div && !verbose ) {
      ++n_divergent;
      return;
   }
   ++vf::st.evaluations;
   In in( buf.p, buf.p + buf.n, "src", g_ib, g_il, g_ic );
   check_positions = S.check_positions;
   monitor_apply_mode = !S.check_scopes;

   memset( ca_counts, 0, sizeof ca_counts );
   verif_c03 = 0;
   Real r;
   fault_armed = 1;
#ifdef VERIF_TREE
   TR::TreeResult tree;
#endif
   if( sigsetjmp( fault_jmp, 1 ) == 0 ) {
#ifdef VERIF_TREE
      tree = TR::run_tree( c.cfg, in, S.fuel );
      r = tree.r;
#elif defined( VERIF_COV )
      cov_result.clear();
      cov_threw.clear();
      fuel = S.fuel;
      fuel_out = false;
      top_A = 1;
      L.reset();
      try {
         // ctl 4: the must_if table A over the monitor - the wrapped control's failure() raises, the coverage state must have been told first
         const bool ok = ( c.cfg.ctl == 4 ) ? p::coverage< node< 0 >, act_apply, mon_errA >( in, cov_result ) : ( c.cfg.fam == 1 ) ? p::coverage< node< 0 >, act_apply, mon >( in, cov_result ) : p::coverage< node< 0 >, act_bool, mon >( in, cov_result );
         r.kind = ok ? Real::OK : Real::FAILED;
         r.pos = int( in.current() - g_begin );
      }
      catch( const Fuel& ) {
         r.kind = Real::FUEL;
      }
      catch( const p::parse_error& e ) {
         r.kind = Real::PARSE_ERROR;
         r.msg = std::string( e.message() );
         r.byte = e.position_object().byte;
         r.line = e.position_object().line;
         r.column = e.position_object().column;
         r.what = e.what();
      }
      catch( const ActX& e ) {
         r.kind = Real::ACT_X;
         r.who = e.node;
      }
      catch( const std::exception& e ) {
         r.kind = Real::OTHER;
         cov_threw = e.what();
      }
      catch( ... ) {
         r.kind = Real::OTHER;
      }
      if( fuel_out ) r.kind = Real::FUEL;
#else
      r = run_impl( c.cfg, in, S.fuel );
#endif
      fault_armed = 0;
   }
   else {
      report( S.hook_prop, "memory access outside the input buffer (guard page fault)|" + innermost_rule_name(), c, "", false );
      if( std::string( S.hook_prop ) != "C03" ) report( "C03", "memory access outside the input buffer (guard page fault)|" + innermost_rule_name(), c, "", false );
      L.frames.clear();
      return;
   }
   if( verbose ) {
      printf( "table: %s\ninput: '%s' cfg=%s choices=%s\nimpl: %s pos=%d who=%d msg='%s' byte=%zu line=%zu col=%zu nested=%d\n", show_tab( c.nrules ).c_str(), vf::show( c.input ).c_str(), c.cfg.str().c_str(), X.str().c_str(), real_name( r.kind ), r.pos, r.who, r.msg.c_str(), r.byte, r.line, r.column, int( r.nested ) );
      if( div )
         printf( "ref : divergent\n" );
      else
         printf( "ref : %s pos=%d who=%d lo=%d hi=%d nk=%d\n", kind_name( o.k ), o.pos, o.who, o.lo, o.hi, o.nk );
      printf( "monitors: c02=%d %s | c04=%d %s | c03=%d %s\n", L.c02, L.c02_msg.c_str(), L.c04, L.c04_msg.c_str(), L.c03, L.c03_msg.c_str() );
   }
   if( div ) {
      ++n_divergent;
      return;
   }
   // ---- result against the reference: C01 / C09 / C05 depending on the space
   // known shape (finding #16): lazy tracking + rematch / minus + bof: bof refers to the re-matched text
   bool lazy_rematch_bof = false;
   if( S.check_positions && In::tracking_mode_v == p::tracking_mode::lazy ) {
      bool rem = false, bof = false;
      for( int i = 0; i < c.nrules; ++i ) {
         rem = rem || tab[ i ].op == REMATCH || tab[ i ].op == REMATCH3 || tab[ i ].op == MINUS;
         bof = bof || tab[ i ].op == BOF;
      }
      lazy_rematch_bof = rem && bof;
   }
   if( r.kind == Real::FUEL ) {
      if( lazy_rematch_bof )
         report( "C06", "lazy input: positions inside the second phase of rematch / minus are relative to the re-matched text|consequence: bof matches at the start of the re-matched text (repetition over bof does not terminate)", c );
      else
         report( S.result_prop, "implementation does not terminate where the reference does", c );
      return;
   }
   if( o.k == R::RAISE ) {
      // the furthest point reached includes what failing holes left consumed; those residues are only
      // known after the implementation has run (all other answers are memoised, so this is a pure re-run)
      RI.reset( S.ref_fuel );
      o = RI.ev( 0, 0, int( buf.n ), R::Ctx{ c.cfg.A, c.cfg.fam, -1, 1 } );
   }
   const std::string j = judge( o, r, c.cfg.M, buf.p, VERIF_EOL_KIND );
   if( !j.empty() ) {
      const bool exc = ( o.k != R::OK && o.k != R::FAIL ) || ( r.kind != Real::OK && r.kind != Real::FAILED );
      // classify the kind of disagreement without the numbers, so that signatures stay stable
      std::string cls = j;
      for( auto& ch : cls )
         if( ch >= '0' && ch <= '9' ) ch = '#';
      if( lazy_rematch_bof )
         report( "C06", "lazy input: positions inside the second phase of rematch / minus are relative to the re-matched text|consequence: bof matches at the start of the re-matched text", c, j );
      else if( S.check_positions && In::tracking_mode_v == p::tracking_mode::lazy && L.raise_in_rematch && j.rfind( "error position", 0 ) == 0 )
         // the same finding seen through an error: a parse_error raised while a rematch / minus rule is open takes its position from the sub-input
         report( "C06", "lazy input: positions inside the second phase of rematch / minus are relative to the re-matched text|consequence: a parse_error raised inside the re-match carries the relative position", c, j );
      else
         report( exc ? S.exc_prop : S.result_prop, S.check_positions ? "match result differs from the reference (rule outcome depends on a position counter): " + cls : cls, c, j );
   }
#ifdef VERIF_COV
   // ---- the control wrapped by state_control (what coverage<> is built on) must still see a balanced protocol
   {
      bool defect = false;
      const std::string h = check_hooks( true, defect );
      if( !h.empty() ) report( "C08", "control wrapped by state_control: " + h, c );
      if( defect ) report( "C08", "exception thrown by an action leaves the rule attempt without unwind", c );
   }
   // ---- coverage counters (C08): start = success + failure + unwind for every rule and branch, equal to the reference's count of attempts
   if( !cov_threw.empty() ) report( "C08", "the coverage facility itself threw", c, cov_threw );
   for( const auto& e : cov_result ) {
      const auto& ci = e.second;
      if( ci.start != ci.success + ci.failure + ci.unwind ) report( "C08", "coverage counters: start != success + failure + unwind for a rule", c, std::string( e.first ) );
      for( const auto& b : ci.branches )
         if( b.second.start != b.second.success + b.second.failure + b.second.unwind ) report( "C08", "coverage counters: start != success + failure + unwind for a branch", c, std::string( e.first ) + " -> " + std::string( b.first ) );
   }
   for( int i = 0; i < c.nrules; ++i ) {
      const auto it = cov_result.find( node_names[ i ] );
      if( it == cov_result.end() ) {
         report( "C08", "coverage result has no entry for a rule of the grammar", c );
         continue;
      }
      const auto& ci = it->second;
      if( long( ci.start ) != RI.cov[ i ][ 0 ] || long( ci.success ) != RI.cov[ i ][ 1 ] || long( ci.failure ) != RI.cov[ i ][ 2 ] || long( ci.unwind ) != RI.cov[ i ][ 3 ] )
         report( "C08", "coverage counters differ from the number of attempts / outcomes of the rule", c, "rule n" + std::to_string( i ) + " coverage " + std::to_string( ci.start ) + "/" + std::to_string( ci.success ) + "/" + std::to_string( ci.failure ) + "/" + std::to_string( ci.unwind ) + " reference " + std::to_string( RI.cov[ i ][ 0 ] ) + "/" + std::to_string( RI.cov[ i ][ 1 ] ) + "/" + std::to_string( RI.cov[ i ][ 2 ] ) + "/" + std::to_string( RI.cov[ i ][ 3 ] ) );
   }
#endif
#ifdef VERIF_TREE
   // ---- the parse tree is the surviving derivation of the selected rules (C12)
   if( ( r.kind == Real::OK ) != tree.has_tree ) report( "C12", "a tree is returned although the parse did not succeed (or vice versa)", c );
   if( tree.has_tree && o.k == R::OK ) {
      const auto want = TR::expected_tree( RI );
      if( !tree.root_ok ) report( "C12", "root node is not the typeless content-free root", c );
      if( !tree.problems.empty() ) report( "C12", "parse tree node carries an inconsistent position", c, tree.problems );
      if( !( want == tree.nodes ) ) report( "C12", "tree differs from the surviving derivation of the selected rules", c, "want " + TR::show( want ) + "| got " + TR::show( tree.nodes ) );
      if( !want.empty() ) vf::count( "executions_with_nonempty_tree" );
   }
#endif
   // ---- limits leave no residue (C18)
#ifdef VERIF_DEPTH_INPUT
   if( in.current_depth() != 0 ) report( "C18", "depth counter not back to its initial value after the run", c, std::string( "outcome " ) + real_name( r.kind ) );
#endif
   if( in.end() != buf.p + buf.n ) report( "C18", "input end not restored after the run", c, std::string( "outcome " ) + real_name( r.kind ) );
   // ---- state / action / control scoping (C13)
   if( S.check_scopes ) {
      bool same = T::st_log.size() == RI.st_log.size();
      for( size_t i = 0; same && i < RI.st_log.size(); ++i ) {
         const auto &x = T::st_log[ i ], &y = RI.st_log[ i ];
         same = ( x.what == y.what && x.id == y.id && x.pos == y.pos && x.outer == y.outer );
      }
      if( !same ) {
         std::string w, g;
         auto sh = []( const T::StEv& e ) { return std::string( e.what == 0 ? "ctor" : e.what == 1 ? "success" : "dtor" ) + "#" + std::to_string( e.id ) + "@" + std::to_string( e.pos ) + "^" + std::to_string( e.outer ) + " "; };
         for( auto& e : RI.st_log ) w += sh( e );
         for( auto& e : T::st_log ) g += sh( e );
         report( "C13", "state constructor/success/destructor log differs from the lexical scoping model", c, "want " + w + "| got " + g );
      }
      if( r.kind == Real::OK && o.k == R::OK ) {
         bool sa = T::sw_acts.size() == RI.sw_acts.size();
         for( size_t i = 0; sa && i < RI.sw_acts.size(); ++i ) {
            const auto &x = T::sw_acts[ i ], &y = RI.sw_acts[ i ];
            sa = ( x.rule == y.rule && x.fam == y.fam && x.b == y.b && x.e == y.e && x.state == y.state );
         }
         if( !sa ) {
            std::string w, g;
            auto sh = []( const T::SwAct& e ) { return "n" + std::to_string( e.rule ) + "/fam" + std::to_string( e.fam ) + "[" + std::to_string( e.b ) + "," + std::to_string( e.e ) + ")state" + std::to_string( e.state ) + " "; };
            for( auto& e : RI.sw_acts ) w += sh( e );
            for( auto& e : T::sw_acts ) g += sh( e );
            report( "C13", "actions fired with the wrong action family or state instance", c, "want " + w + "| got " + g );
            // which rules' actions ran at all (family and state set aside) is what enable_action / disable_action decide: C04
            bool spans = T::sw_acts.size() == RI.sw_acts.size();
            for( size_t i = 0; spans && i < RI.sw_acts.size(); ++i ) spans = ( T::sw_acts[ i ].rule == RI.sw_acts[ i ].rule && T::sw_acts[ i ].b == RI.sw_acts[ i ].b && T::sw_acts[ i ].e == RI.sw_acts[ i ].e );
            if( !spans ) report( "C04", "surviving action invocations differ inside enable_action / disable_action / change_action scopes", c, "want " + w + "| got " + g );
         }
      }
      if( o.k == R::OK || o.k == R::FAIL ) {
         bool sc = T::ctl_log.size() == RI.ctl_log.size();
         for( size_t i = 0; sc && i < RI.ctl_log.size(); ++i ) sc = ( T::ctl_log[ i ] == RI.ctl_log[ i ] );
         if( !sc ) report( "C13", "control in effect for a rule differs from the lexical scoping model", c );
      }
      if( !RI.st_log.empty() ) vf::count( "executions_with_state_scopes" );
   }
   // ---- online monitors
   if( L.c02 ) report( "C02", L.c02_msg, c, "", false );
   if( L.c03 ) report( "C03", L.c03_msg, c, "", false );
   if( verif_c03 ) {
      report( S.hook_prop, L.c03_hook.empty() ? std::string( verif_c03_what ) + "|top level" : L.c03_hook, c, "", false );
      if( std::string( S.hook_prop ) != "C03" ) report( "C03", L.c03_hook.empty() ? std::string( verif_c03_what ) + "|top level" : L.c03_hook, c, "", false );
   }
   if( L.c04 ) report( "C04", L.c04_msg, c, "", false );
   if( L.c06 ) report( "C06", strip_ns( L.c06_msg ) + ( ( g_ib | ( g_il - 1 ) | ( g_ic - 1 ) ) ? "|non-default initial counters" : "|default counters" ), c, L.c06_info );
   // ---- surviving action log (C04)
   if( S.check_actions && monitor_frames && r.kind == Real::OK && o.k == R::OK ) {  // the transactional log needs the monitor's frames
      std::vector< std::array< int, 3 > > want;
      {
         std::vector< int > begins;
         for( const auto& t : RI.trail ) {
            if( t.exit == 2 ) {
               want.push_back( { t.rule, t.b, t.pos } );
               continue;
            }
            if( !t.exit )
               begins.push_back( t.pos );
            else {
               const int b = begins.back();
               begins.pop_back();
               const int ak = ( t.amode && t.fam < 8 ) ? act_kind_of( t.fam, t.rule ) : 0;
               if( ak == 1 || ak == 3 ) want.push_back( { t.rule, b, t.pos } );
               if( ak == 2 || ak == 4 ) want.push_back( { t.rule, b, -1 } );
            }
         }
      }
      bool same = want.size() == L.acts.size();
      for( size_t i = 0; same && i < want.size(); ++i ) same = ( want[ i ][ 0 ] == L.acts[ i ].rule && want[ i ][ 1 ] == L.acts[ i ].b && want[ i ][ 2 ] == L.acts[ i ].e );
      if( !same ) {
         std::string w, g;
         for( auto& a : want ) w += "n" + std::to_string( a[ 0 ] ) + "[" + std::to_string( a[ 1 ] ) + "," + std::to_string( a[ 2 ] ) + ") ";
         for( auto& a : L.acts ) g += "n" + std::to_string( a.rule ) + "[" + std::to_string( a.b ) + "," + std::to_string( a.e ) + ") ";
         report( "C04", "surviving action sequence differs from the derivation", c, "want " + w + "| got " + g );
      }
      if( !want.empty() ) vf::count( "executions_with_surviving_actions" );
   }
   // ---- every action invocation, backtracked ones included (C04: none inside look-ahead / disabled sections, none twice):
   //      for operators whose reference definition makes exactly the calls the implementation makes
   if( S.check_actions && monitor_frames && ( o.k == R::OK || o.k == R::FAIL ) && ( r.kind == Real::OK || r.kind == Real::FAILED ) ) {
      bool faithful = true;
      for( int i = 0; i < c.nrules; ++i ) {
         const int op = tab[ i ].op;
         // list_tail's documented expansion tries the separator twice; holes / try_catch rules are fine but keep the set conservative
         if( op == LIST_TAIL || op == LIST_TAIL3 ) faithful = false;
      }
      if( faithful ) {
         bool same = RI.all_acts.size() == L.all_acts.size();
         for( size_t i = 0; same && i < RI.all_acts.size(); ++i ) same = ( RI.all_acts[ i ][ 0 ] == L.all_acts[ i ].rule && RI.all_acts[ i ][ 1 ] == L.all_acts[ i ].b && RI.all_acts[ i ][ 2 ] == L.all_acts[ i ].e );
         if( !same ) {
            std::string w, g;
            for( auto& a : RI.all_acts ) w += "n" + std::to_string( a[ 0 ] ) + "[" + std::to_string( a[ 1 ] ) + "," + std::to_string( a[ 2 ] ) + ") ";
            for( auto& a : L.all_acts ) g += "n" + std::to_string( a.rule ) + "[" + std::to_string( a.b ) + "," + std::to_string( a.e ) + ") ";
            report( "C04", "action invocations (backtracked ones included) differ: an action ran in look-ahead / a disabled section, twice, or not at all", c, "want " + w + "| got " + g );
         }
      }
   }
   // ---- control_action (C08): the hooks of an action class deriving from control_action are called for every attempt
   if( c.cfg.fam == 20 ) {
      for( int i = 0; i < c.nrules; ++i ) {
         if( ca_counts[ i ][ 0 ] != RI.cov[ i ][ 0 ] || ca_counts[ i ][ 1 ] != RI.cov[ i ][ 1 ] || ca_counts[ i ][ 2 ] != RI.cov[ i ][ 2 ] || ca_counts[ i ][ 3 ] != RI.cov[ i ][ 3 ] ) {
            report( "C08", "control_action: start/success/failure/unwind of the action differ from the attempts and outcomes of the rule", c, "rule n" + std::to_string( i ) + " hooks " + std::to_string( ca_counts[ i ][ 0 ] ) + "/" + std::to_string( ca_counts[ i ][ 1 ] ) + "/" + std::to_string( ca_counts[ i ][ 2 ] ) + "/" + std::to_string( ca_counts[ i ][ 3 ] ) + " reference " + std::to_string( RI.cov[ i ][ 0 ] ) + "/" + std::to_string( RI.cov[ i ][ 1 ] ) + "/" + std::to_string( RI.cov[ i ][ 2 ] ) + "/" + std::to_string( RI.cov[ i ][ 3 ] ) );
            break;
         }
      }
   }
   // ---- hook protocol (C08)
   if( S.check_hooks && hooks_checked_for( c.cfg.ctl ) ) {
      bool defect = false;
#ifdef VERIF_TREE
      const std::string h = check_hooks( true, defect );  // in the tree space ctl 1 = "with a user state", the control has unwind
#else
      const std::string h = check_hooks( c.cfg.ctl != 1, defect );
#endif
      if( !h.empty() ) report( "C08", h, c );
      if( defect ) report( "C08", "exception thrown by an action leaves the rule attempt without unwind", c );
   }
   // ---- statistics
   const bool nontrivial = RI.n_backtrack_after_consume > 0 || ( o.k != R::OK && o.k != R::FAIL ) || memo.m.size() > 0;
   if( nontrivial && vf::st.distinct.size() < 4000000 ) {
      uint64_t h = vf::mix( g_prog_hash, vf::hstr( c.input ) );
      h = vf::mix( h, uint64_t( o.k * 1000 + o.pos * 10 + o.who + 1 ) );
      for( int ch : X.choices ) h = vf::mix( h, uint64_t( ch ) );
      vf::nontrivial( h );
   }
   if( RI.n_backtrack_after_consume > 0 ) vf::count( "executions_with_backtracking_over_consumed_input" );
   if( o.k != R::OK && o.k != R::FAIL ) vf::count( "executions_ending_in_exception" );
   if( vf::st.samples.size() < 4 && RI.n_backtrack_after_consume > 0 && ( vf::st.evaluations % 31 ) == 1 )
      vf::sample( "{\"table\":\"" + vf::jesc( show_tab( c.nrules ) ) + "\",\"input\":\"" + vf::jesc( vf::show( c.input ) ) + "\",\"cfg\":\"" + c.cfg.str() + "\",\"choices\":\"" + X.str() + "\",\"reference\":\"" + kind_name( o.k ) + "@" + std::to_string( o.k == R::OK ? o.pos : o.lo ) + "\",\"implementation\":\"" + real_name( r.kind ) + "@" + std::to_string( r.kind <= 1 ? r.pos : int( r.byte ) ) + "\"}" );
}

// std::terminate during a run = an exception could not propagate to the caller of parse() (e.g. thrown through a noexcept hook)
static void on_terminate()
{
   if( g_current_case ) {
      report( "C05", "std::terminate during the parsing run: an exception did not propagate to the caller of parse()", *g_current_case );
   }
   vf::st.exhaustive = false;
   vf::st.note = "aborted by std::terminate inside the library; remaining executions of this shard not explored";
   vf::finish();
   _exit( 0 );
}

static void explore_case( Case& c )
{
   std::vector< int > pre;
   for( ;; ) {
      one_execution( c, pre );
      if( exec_in_prog > S.max_exec_per_prog ) {
         ++n_capped;
         vf::st.exhaustive = false;
         break;
      }
      if( !X.next( pre ) ) break;
   }
}

static void apply_flags( const std::string& f )
{
   // "t<0|1>v<0|1>x<0|1>b<bound>hb<0|1>"
   auto v = vf::split( f, ',' );
   hole_may_throw = atoi( v[ 0 ].c_str() );
   act_may_veto = atoi( v[ 1 ].c_str() );
   act_may_throw = atoi( v[ 2 ].c_str() );
   X.bound = atoi( v[ 3 ].c_str() );
   hole_bounded = atoi( v[ 4 ].c_str() );
   if( v.size() >= 8 ) {
      g_ib = size_t( atol( v[ 5 ].c_str() ) );
      g_il = size_t( atol( v[ 6 ].c_str() ) );
      g_ic = size_t( atol( v[ 7 ].c_str() ) );
   }
   if( v.size() >= 9 ) buf_mode = atoi( v[ 8 ].c_str() );
}
static std::string flags_str()
{
   return std::to_string( int( hole_may_throw ) ) + "," + std::to_string( int( act_may_veto ) ) + "," + std::to_string( int( act_may_throw ) ) + "," + std::to_string( X.bound ) + "," + std::to_string( int( hole_bounded ) ) + "," + std::to_string( g_ib ) + "," + std::to_string( g_il ) + "," + std::to_string( g_ic ) + "," + std::to_string( buf_mode );
}

int main( int argc, char** argv )
{
   vf::parse_args( argc, argv );
   install_fault_handler();
   std::set_terminate( on_terminate );
   S.configure( vf::args.thorough() );
   if( vf::args.replay ) {
      auto f = vf::split( vf::args.the_case, '|' );
      Case c;
      c.nrules = deser_tab( f[ 0 ] );
      c.input = vf::unhex( f[ 1 ] );
      c.cfg = Cfg::parse( f[ 2 ] );
      c.flags = f[ 4 ];
      apply_flags( c.flags );
      one_execution( c, Explorer::parse( f[ 3 ] ), true );
      vf::finish();
      return 0;
   }
   long prog_index = 0;
   for( const auto& ph : S.phases ) {
      hole_may_throw = ph.hole_may_throw;
      act_may_veto = ph.act_may_veto;
      act_may_throw = ph.act_may_throw;
      X.bound = ph.dev_bound;
      hole_bounded = ph.hole_bounded;
      const double t_phase = vf::elapsed();
      long progs_here = 0;
      for( int bm : ph.buf_modes ) {
      buf_mode = bm;
      ProgEnum pe;
      pe.maxn = ph.N;
      pe.root = ops_of( ph.root );
      pe.inner = ops_of( ph.inner );
      pe.flat_inner = ph.flat_inner;
      std::vector< std::string > inputs;
      for_inputs( ph.sigma, ph.L, [ & ]( const std::string& s ) {
         if( int( s.size() ) >= ph.Lmin ) inputs.push_back( s );
      } );
      for( const auto& s : ph.extra_inputs ) inputs.push_back( s );
      pe.run( [ & ]( int n ) {
         int nholes = 0;
         for( int i = 0; i < n; ++i ) nholes += ( tab[ i ].op == HOLE || tab[ i ].op == THOLE );
         if( ph.need_hole && nholes == 0 ) return;
         if( nholes > ph.max_holes ) return;
         if( ( prog_index++ % vf::args.nshards ) != vf::args.shard ) return;
         if( vf::out_of_time() ) return;
         ++vf::st.states;  // the program node of the exploration tree
         vf::count( ph.name );
         ++progs_here;
         g_prog_hash = vf::hstr( ser_tab( n ) );
         for( unsigned i = n; i < K; ++i ) tab[ i ] = { FAILURE, 0, 0, 0 };
         exec_in_prog = 0;
         for( const auto& s : inputs ) {
            for( const auto& ctr : ph.counters ) {
               g_ib = ctr[ 0 ];
               g_il = ctr[ 1 ];
               g_ic = ctr[ 2 ];
               for( const auto& cfg : ph.cfgs ) {
                  Case c;
                  c.nrules = n;
                  c.input = s;
                  c.cfg = cfg;
                  c.flags = flags_str();
                  explore_case( c );
               }
            }
         }
      } );
      }
      if( getenv( "VERIF_DEBUG" ) ) fprintf( stderr, "phase %s: programs(this shard) %ld, evaluations so far %ld, %.1fs\n", ph.name, progs_here, vf::st.evaluations, vf::elapsed() - t_phase );
   }
   vf::st.states += X.nodes + vf::st.evaluations;  // programs + choice nodes + leaves
   vf::st.transitions += X.nodes + vf::st.evaluations;
   vf::count( "divergent_skipped", n_divergent );
   vf::count( "divergent_and_implementation_out_of_fuel", n_fuel_both );
   vf::count( "programs_capped", n_capped );
   vf::finish();
   return 0;
}
