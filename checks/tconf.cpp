// T <-> static grammar conformance (DESIGN §2.1 "fidelity limit and how it is closed"), dynamic side:
// enumerate the canonical core tables, take every STRIDE-th one, and print for every input what the
// table engine observes (result, consumed bytes, every action invocation in call order).  verif.py
// generates the same tables as ordinary static grammars (gen/static_gen.py), runs them on the same
// inputs and requires identical lines.
//    T\t<index>\t<table>
//    O\t<index>\t<input hex>\t<result>\t<consumed>\t<trace>
#define VERIF_K 3
#define VERIF_GROUPS ( T::G_CORE | T::G_CORE3 | T::G_CONV | T::G_REP | T::G_REMATCH )
#define VERIF_FAMS 2
#define VERIF_CTLS 1
#include "../engine/pipeline.hpp"

using namespace PL;

static R::Interp RI;

int main( int argc, char** argv )
{
   vf::parse_args( argc, argv );
   const bool thorough = vf::args.thorough();
   const long stride = thorough ? 7 : 41;
   auto ops = []( std::vector< const char* > v ) { std::vector< int > r; for( auto n : v ) r.push_back( op_by_name( n ) ); return r; };
   ProgEnum pe;
   pe.maxn = 3;
   pe.root = ops( { "ANY", "ONE_A", "NOT_ONE_A", "RANGE_AB", "STRING_AB", "EOF_", "SUCCESS", "FAILURE", "STAR", "PLUS", "OPT", "AT", "NOT_AT", "SEQ", "SOR", "SEQ1", "SOR1", "SEQ3", "SOR3", "STAR2", "PLUS2", "OPT2", "AT2", "NOT_AT2",
                    "IF_THEN_ELSE", "UNTIL1", "UNTIL2", "LIST", "PAD", "MINUS", "REMATCH", "PARTIAL", "STAR_PARTIAL", "STRICT", "REP2", "REP_MIN1", "RMM12", "REP_OPT2", "OPT_MUST", "LIST_TAIL" } );
   pe.inner = pe.root;
   std::vector< std::string > inputs;
   for_inputs( "abc", 3, [ & ]( const std::string& s ) { inputs.push_back( s ); } );
   long idx = 0, taken = 0;
   pe.run( [ & ]( int n ) {
      const long me = idx++;
      if( me % stride != 0 ) return;
      if( ( taken++ % vf::args.nshards ) != vf::args.shard ) return;
      for( unsigned i = n; i < K; ++i ) tab[ i ] = { FAILURE, 0, 0, 0 };
      // only tables that are well-formed on every input (no divergence): a static grammar would recurse forever as well
      for( const auto& s : inputs ) {
         Buf buf( s );
         g_begin = buf.p;
         X.begin( {} );
         memo.clear();
         RI.data = buf.p;
         RI.reset( 500 );
         try {
            (void)RI.ev( 0, 0, int( buf.n ), R::Ctx{ 1, 0, -1, 1 } );
         }
         catch( const R::Diverge& ) {
            return;
         }
      }
      ++vf::st.states;
      printf( "T\t%ld\t%s\n", me, ser_tab( n ).c_str() );
      for( const auto& s : inputs ) {
         Buf buf( s );
         g_begin = buf.p;
         X.begin( {} );
         memo.clear();
         In in( buf.p, buf.p + buf.n, "src" );
         const Real r = run_impl( Cfg{ 1, 0, 1, 0 }, in, 3000 );
         ++vf::st.evaluations;
         std::string tr;
         for( const auto& a : L.all_acts ) tr += "n" + std::to_string( a.rule ) + "[" + std::to_string( a.b ) + "," + std::to_string( a.e ) + ")";
         std::string res = r.kind == Real::OK ? "ok" : r.kind == Real::FAILED ? "fail" : r.kind == Real::PARSE_ERROR ? "error:" + r.msg + "@" + std::to_string( r.byte ) : "other";
         // table rule names are T::node<Iu>; the static grammar calls them g<k>::n<I>
         for( unsigned i = 0; i < K; ++i ) {
            const std::string from = node_names[ i ];
            size_t q;
            while( ( q = res.find( from ) ) != std::string::npos ) res.replace( q, from.size(), "n" + std::to_string( i ) );
         }
         printf( "O\t%ld\t%s\t%s\t%d\t%s\n", me, vf::hex( s ).c_str(), res.c_str(), ( r.kind <= 1 ) ? r.pos : -1, tr.c_str() );
         if( !L.all_acts.empty() ) vf::nontrivial( vf::mix( vf::hstr( ser_tab( n ) ), vf::hstr( s + tr ) ) );
      }
   } );
   vf::st.transitions = vf::st.evaluations;
   vf::finish();
   return 0;
}
