// C11, dynamic side: for every table of the ill-formed grammar families find out whether some input
// (alphabet {a, b, [}, length <= 3) drives the *reference* into a cycle without progress (left
// recursion: the same (rule, position) re-entered; or a repetition whose body succeeds without
// consuming), and confirm the witness on the *implementation* (the fuel-limited real run must not
// terminate).  Output: one line per table
//    P\t<table>\t<nrules>\t<witness kind 0 none|1 left recursion|2 empty repetition>\t<witness input hex>\t<confirmed 0|1>
// verif.py compiles every table as a static grammar, asks analyze<>() and joins.
#define VERIF_K 3
#define VERIF_GROUPS ( T::G_CORE | T::G_CORE3 | T::G_CONV | T::G_CONV3 | T::G_REP | T::G_EXC | T::G_ACT | T::G_STATE | T::G_FILL | T::G_META | T::G_REMATCH | T::G_CONTRIB | T::G_ATOM3 )
#define VERIF_FAMS 1
#define VERIF_CTLS 2
#include "../engine/pipeline.hpp"

#include <algorithm>

using namespace PL;

#define CORE_OPS "STAR", "PLUS", "OPT", "AT", "NOT_AT", "SEQ", "SOR"
#define CORE_OPS3 "SEQ3", "SOR3", "STAR2", "PLUS2", "OPT2", "AT2", "NOT_AT2"
#define CONV_OPS "IF_THEN_ELSE", "IF_MUST", "OPT_MUST", "IF_MUST_ELSE", "MUST", "MUST2", "STAR_MUST", "LIST", "LIST_MUST", "LIST_TAIL", "MINUS", "REMATCH", "PAD", "PAD_OPT", "PARTIAL1", "PARTIAL", "STAR_PARTIAL1", "STAR_PARTIAL", "UNTIL1", "UNTIL2"
#define CONV_OPS3 "IF_MUST3", "OPT_MUST3", "STAR_MUST3", "LIST3", "LIST_MUST3", "LIST_TAIL3", "REMATCH3", "PAD3", "PARTIAL3", "STAR_PARTIAL3", "UNTIL3"
#define REP_OPS "REP0", "REP1", "REP2", "REP3", "REP2_2", "REP_MIN0", "REP_MIN1", "REP_MIN2", "REP_MIN2_2", "REP_MAX0", "REP_MAX1", "REP_MAX2", "REP_OPT1", "REP_OPT2", "REP_OPT2_2", "RMM00", "RMM01", "RMM02", "RMM11", "RMM12", "RMM22", "RMM12_2"
#define EXC_OPS "TC_RF", "TC_ANY_RF", "TC_STD_RF", "TC_TYPE_RF", "TC_RN", "TC_ANY_RN", "TC_STD_RN", "TC_TYPE_RN", "TC_RF2"
#define META_OPS "ENABLE", "DISABLE", "STATE", "ACTION_ALT", "CONTROL_ALT", "RAW1", "CUSTOM_ANY", "SEPARATED_SEQ", "IF_THEN_ELSE_THEN", "IF_THEN"
#define FILLERS "ONE_A", "OPT_ONE_A", "AT_ONE_A", "FAILURE", "EOF_"
// rules whose analysis traits say "always consumes" by fiat (analyze_any_traits): a matcher that can succeed on the empty
// string makes every repetition around them loop although the grammar is certified
#define ANY_BY_FIAT "ROMM12_A", "INT_MAX7", "INT_U", "RAW"
#define FILLERS_SMALL "ONE_A", "OPT_ONE_A"

static std::vector< int > ops_of( const std::vector< const char* >& names )
{
   std::vector< int > r;
   for( auto n : names ) r.push_back( op_by_name( n ) );
   return r;
}

static R::Interp RI;

int main( int argc, char** argv )
{
   vf::parse_args( argc, argv );
   const bool thorough = vf::args.thorough();
   struct Fam
   {
      const char* name;
      std::vector< const char* > root, inner;
      int N;
      bool flat;
   };
   std::vector< Fam > fams;
   // (i) direct recursion through every operator, every child position, fillers elsewhere; also every repetition over every filler
   if( thorough )
      fams.push_back( { "every_operator_over_itself_and_fillers", { CORE_OPS, CORE_OPS3, CONV_OPS, CONV_OPS3, REP_OPS, EXC_OPS, META_OPS }, { FILLERS }, 3, false } );
   else
      fams.push_back( { "every_operator_over_itself_and_fillers", { CORE_OPS, CORE_OPS3, CONV_OPS, CONV_OPS3, REP_OPS, EXC_OPS, META_OPS }, { "ONE_A", "OPT_ONE_A", "AT_ONE_A" }, 3, false } );
   // (ii) indirect recursion: operator over operator, fillers as leaves.  Three rules over the classical menu; thorough adds
   //      every ordered pair of operators of the full unary/binary menu as a two-rule table (each grammar costs a static
   //      compile of analyze<>, which bounds the family: three rules over the full menu would be 4.8 million grammars)
   fams.push_back( { "indirect_recursion_through_classical_operators", { "SEQ", "SOR", "STAR", "IF_THEN_ELSE", "CUSTOM_ANY" }, { FILLERS_SMALL, "SEQ", "SOR", "NOT_AT", "CUSTOM_ANY" }, 3, false } );
   if( thorough )
      fams.push_back( { "indirect_recursion_through_operator_pairs", { CORE_OPS, CORE_OPS3, CONV_OPS, CONV_OPS3, REP_OPS, EXC_OPS, META_OPS }, { FILLERS_SMALL, CORE_OPS, CONV_OPS, "REP2", "REP_MIN1", "RMM12", "REP_OPT2", "TC_RF", "TC_RN", "ENABLE", "STATE", "ACTION_ALT", "RAW1", "CUSTOM_ANY" }, 2, false } );

   // (iii) every repetition / optional wrapper over the atoms that are "consuming" by fiat
   fams.push_back( { "repetitions_over_atoms_consuming_by_fiat", { "STAR", "PLUS", "STAR2", "PLUS2", "UNTIL2", "LIST", "STAR_MUST", "REP_MIN1", "PAD", "STAR_PARTIAL1" }, { ANY_BY_FIAT, "ONE_A", "EOF_" }, 3, true } );

   // (iv) the analysis keys its tables by the printed name of a rule: two different anonymous rules whose printed names agree up to
   //      a character that is special in a compiler's type printout ( ; ] = , > ' ) must not share an entry (the benign one first):
   //      n1 = star< sor< one< c >, one< 'a' > > > (atom), n2 = star< sor< one< c >, n1 > > loops because n1 is nullable
   fams.push_back( { "rules_whose_printed_names_share_a_prefix", { "SEQ", "SOR" }, { "STAR_NA_SEMI", "STAR_SORX_SEMI", "STAR_NA_RBR", "STAR_SORX_RBR", "STAR_NA_EQ", "STAR_SORX_EQ", "STAR_NA_COMMA", "STAR_SORX_COMMA", "STAR_NA_GT", "STAR_SORX_GT", "STAR_NA_QUOTE", "STAR_SORX_QUOTE" }, 3, false } );

   const std::string sigma = "ab[8";
   std::vector< std::string > inputs;
   for_inputs( sigma, 3, [ & ]( const std::string& s ) { inputs.push_back( s ); } );
   long prog_index = 0;
   hole_may_throw = false;
   for( const auto& f : fams ) {
      ProgEnum pe;
      pe.maxn = f.N;
      pe.root = ops_of( f.root );
      pe.inner = ops_of( f.inner );
      pe.flat_inner = f.flat;
      pe.run( [ & ]( int n ) {
         if( ( prog_index++ % vf::args.nshards ) != vf::args.shard ) return;
         for( unsigned i = n; i < K; ++i ) tab[ i ] = { FAILURE, 0, 0, 0 };
         ++vf::st.states;
         vf::count( f.name );
         int kind = 0, confirmed = 0;
         std::string witness;
         for( const auto& s : inputs ) {
            Buf buf( s );
            g_begin = buf.p;
            X.begin( {} );
            memo.clear();
            RI.data = buf.p;
            RI.act_family = 0;
            RI.eol_kind = 0;
            RI.reset( 500 );
            int why = -1;
            try {
               (void)RI.ev( 0, 0, int( buf.n ), R::Ctx{ 1, 0, -1, 1 } );
            }
            catch( const R::Diverge& d ) {
               why = d.why;
            }
            ++vf::st.evaluations;
            if( why < 0 ) {
               // the reference terminates: so must the real code (a rule that wrongly succeeds without consuming makes a certified
               // repetition spin; the reference, which implements the documented rule, cannot see that)
               In in( buf.p, buf.p + buf.n, "src" );
               const Real r = run_impl( Cfg{ 0, 1, 1, 1 }, in, 3000 );
               ++vf::st.transitions;
               if( r.kind == Real::FUEL ) {
                  kind = 3;
                  witness = s;
                  confirmed = 1;
                  break;
               }
            }
            if( why == 0 || why == 1 ) {
               // confirm on the real code: it must not terminate either
               In in( buf.p, buf.p + buf.n, "src" );
               const Real r = run_impl( Cfg{ 0, 1, 1, 1 }, in, 600 );
               ++vf::st.transitions;
               if( r.kind == Real::FUEL ) {
                  kind = why + 1;
                  witness = s;
                  confirmed = 1;
                  break;
               }
               else {
                  vf::count( "reference_diverges_but_implementation_terminates" );
               }
            }
         }
         if( kind ) {
            vf::count( "tables_with_confirmed_loop_witness" );
            vf::nontrivial( vf::hstr( ser_tab( n ) ) );
         }
         printf( "P\t%s\t%d\t%d\t%s\t%d\n", ser_tab( n ).c_str(), n, kind, vf::hex( witness ).c_str(), confirmed );
      } );
   }
   vf::st.transitions += vf::st.evaluations;
   vf::finish();
   return 0;
}
