"""C11: grammar analysis never certifies a grammar that can loop without progress.

dynamic side  : checks/tdiverge.cpp (table engine) finds, per table, an input on which the reference
                 re-enters a (rule, position) or iterates without progress, and confirms it on the implementation.
static side   : gen/static_gen.py writes every table as an ordinary PEGTL grammar; analyze< G >( -1 ) is asked.
violation     : analyze == 0  and  a confirmed loop witness exists.
"""
import os, sys, json, time, hashlib, subprocess, concurrent.futures as cf
import verif as V
sys.path.insert(0, os.path.join(V.ROOT, 'gen'))
import static_gen as G

BATCH = 120


def _analyze_batch(tables):
    """tables: list of (k, ser). returns dict k -> problems (cached by content)"""
    text = G.analyze_tu(tables)
    h = hashlib.sha256()
    h.update(V.tree_hash().encode())
    h.update(text.encode())
    key = h.hexdigest()[:24]
    cdir = os.path.join(V.BUILD, 'c11')
    os.makedirs(cdir, exist_ok=True)
    cache = os.path.join(cdir, key + '.json')
    if os.path.exists(cache):
        with open(cache) as fh:
            return {int(a): b for a, b in json.load(fh).items()}
    src = os.path.join(cdir, key + '.cpp')
    binp = os.path.join(cdir, key + '.bin')
    with open(src, 'w') as fh:
        fh.write(text)
    r = subprocess.run([V.CXX, '-std=c++17', '-O0', '-w', '-I', os.path.join(V.REPO, 'include'), src, '-o', binp],
                       stdout=subprocess.PIPE, stderr=subprocess.STDOUT, text=True)
    if r.returncode != 0:
        # some grammar cannot be analysed at all (e.g. struct n0 : until< n0 > makes analyze_traits inherit from itself):
        # that is a refusal, not a certification.  Bisect to isolate it.
        os.remove(src)
        if len(tables) == 1:
            res = {tables[0][0]: -1}
        else:
            h2 = len(tables) // 2
            res = dict(_analyze_batch(tables[:h2]))
            res.update(_analyze_batch(tables[h2:]))
        with open(cache, 'w') as fh:
            json.dump(res, fh)
        return res
    out = subprocess.run([binp], stdout=subprocess.PIPE, text=True).stdout
    res = {}
    for line in out.splitlines():
        a, b = line.split('\t')
        res[int(a)] = int(b)
    with open(cache, 'w') as fh:
        json.dump(res, fh)
    os.remove(binp)
    os.remove(src)
    return res


def forwards_to_itself(ser):
    """analyze_traits< Name, until< Cond > > derives from analyze_traits< Name, Cond::rule_t >: a cycle made of single-argument
    until rules makes the traits inherit from themselves, i.e. the analysis does not compile for that grammar (a refusal)"""
    rules = G.parse_table(ser)
    for start in range(len(rules)):
        seen = set()
        i = start
        while rules[i][0] == 'UNTIL1' and i not in seen:
            seen.add(i)
            i = rules[i][1]
        if rules[i][0] == 'UNTIL1' and i in seen:
            return True
    return False


def check(pid, tier, deadline):
    t0 = time.time()
    unit = {'name': 't_diverge', 'src': 'checks/tdiverge.cpp', 'flags': [], 'opt': '-O0'}  # one binary for both tiers: its compile time dominates its run time
    binp, dt, cached = V.build_unit(unit['src'], unit['flags'], None, unit['opt'])
    agg = V.Agg(pid)
    agg.units.append({'unit': 't_diverge', 'src': unit['src'], 'build_s': round(dt, 1), 'cached': cached})
    tables = []  # (ser, n, kind, witness_hex, confirmed)
    with cf.ThreadPoolExecutor(V.NCPU) as ex:
        futs = [ex.submit(V.run_shard, binp, tier, i, V.NCPU, deadline) for i in range(V.NCPU)]
        for f in futs:
            rc, out, err = f.result()
            agg.add('t_diverge', rc, out, err)
            for line in out.splitlines():
                if line.startswith('P\t'):
                    _, ser, n, kind, wit, conf = line.split('\t')
                    tables.append((ser, int(n), int(kind), wit, int(conf)))
    tables.sort()
    problems = {}
    todo = []
    for k, t in enumerate(tables):
        if forwards_to_itself(t[0]):
            problems[k] = -1
        else:
            todo.append((k, t[0]))
    batches = [todo[i:i + BATCH] for i in range(0, len(todo), BATCH)]
    # global deadline for the static side: batches not started by then are reported as not covered (exhaustive: false)
    t_end = t0 + (900 if tier == 'quick' else 3600)
    skipped = [0]

    def guarded(b):
        if time.time() > t_end:
            skipped[0] += len(b)
            return {k: None for k, _ in b}
        return _analyze_batch(b)
    with cf.ThreadPoolExecutor(V.NCPU) as ex:
        for res in ex.map(guarded, batches):
            problems.update(res)
    certified = 0
    refused = 0
    viol = 0
    for k, (ser, n, kind, wit, conf) in enumerate(tables):
        if k in problems and problems[k] is None:
            continue  # not reached before the deadline
        p = problems.get(k)
        if p is None:
            agg.broken.append('no analyze result for table %s' % ser)
            continue
        if p == 0:
            certified += 1
        if p == -1:
            refused += 1
        if p == 0 and kind != 0 and conf:
            viol += 1
            ops = sorted(set(r.split('.')[0] for r in ser.split(';')))
            root = ser.split('.')[0]
            sig = 'C11|analyze certifies a grammar with a confirmed loop witness|root=%s' % root
            agg.viol_by_sig[sig] = agg.viol_by_sig.get(sig, 0) + 1
            if sum(1 for v in agg.vlines if v[1] == sig) < 3:
                agg.vlines.append(('static', sig, {'table': ser, 'grammar': G.grammar_source(ser, 'g'), 'witness_input_hex': wit,
                                                   'witness_kind': {1: 'left recursion', 2: 'repetition without progress', 3: 'the real code does not terminate although the documented rules do'}.get(kind, str(kind)), 'analyze_problems': p}))
    agg.evaluations += len(tables)
    agg.states += len(tables)
    agg.transitions += len(tables)
    if skipped[0]:
        agg.exhaustive = False
        agg.notes.append('static side stopped at its deadline: %d of %d grammars were not analysed' % (skipped[0], len(tables)))
    agg.counters['static.grammars_analyzed'] = len(tables) - skipped[0]
    agg.counters['static.certified_by_analyze'] = certified
    agg.counters['static.analysis_does_not_compile_for_this_grammar'] = refused
    agg.counters['static.with_confirmed_witness'] = sum(1 for t in tables if t[2] and t[4])
    agg.counters['static.certified_and_looping'] = viol
    for k in (0, len(tables) // 2, len(tables) - 1):
        if tables:
            ser, n, kind, wit, conf = tables[k]
            agg.samples.append({'unit': 'static', 'case': {'grammar': G.grammar_source(ser, 'g'), 'analyze_problems': problems.get(k), 'loop_witness_kind': kind, 'witness_input_hex': wit}})
    import checks_registry as R
    spec = R.CHECKS[pid]
    return V.finish_check(pid, tier, 'model_checking', agg, {}, t0, spec['rule'], spec['assumptions'])
