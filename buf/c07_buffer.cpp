// C07 (component part) - explicit-state model checking of the real tao::pegtl::buffer_input
//
//   "Parsing the same bytes through ... an incremental stream/buffer input with any chunk size
//    and any reader read-size pattern yields the same result ...  With a buffer too small for the
//    look-ahead the grammar performs, the only permitted deviation is a std::overflow_error; it
//    is never a different match result or memory corruption."
//
// WHAT IS EXPLORED (exhaustive breadth-first search, never sampled)
//   configuration = ( Chunk, maximum, stream length n, position of the one '\n' or none, reader mode )
//       Chunk    : 1, 2, 3 with maximum 1..4 (quick) / 1..5 (thorough); Chunk 64 with maximum 0, 1 (sanity)
//       stream   : n bytes, byte at offset i is 'a' + i (identifies its offset); no '\n', or one '\n'
//                  at offset p for every p in 0..n-1;  n in 0..8 (quick) / 0..10 (thorough)
//                  => 45 streams x 14 = 630 configurations (quick), 66 x 17 = 1122 (thorough)
//       eol      : lf_crlf, source std::string
//       reader   : "any"  - every legal answer: 1..min(length asked, bytes remaining) bytes per
//                           call, 0 iff nothing remains; the answer is an environment choice that
//                           is part of the explored history (all answers of all calls are
//                           enumerated by re-execution, however often an operation calls the reader)
//                  "full" - control run of the same search: the reader always delivers
//                           min(length, remaining); everything must be clean there
//   operations   : r = require(k), s = size(k), z = end(k) for k in 0..5 (quick) / 0..6 (thorough);
//                  e = empty(); b = bump(j), i = bump_in_this_line(j) (offered when no '\n' is among
//                  the j bytes), l = bump_to_next_line(j) (offered when the j bytes end with the
//                  '\n') for j in 1..min(2 (quick) / 3 (thorough), occupied) - never more than is
//                  buffered; d = discard() (only while no mark is held - documented precondition,
//                  prunings are counted); m = mark (auto_rewind< rewind_mode::required >() guard
//                  pushed on an explicit stack, at most 2 (quick) / 3 (thorough) held); t = restore to the latest mark
//                  and keep it (rewind_restore( guard.inputerator() )); x = drop the latest mark
//                  (guard( true ), the success path); f = fail the latest mark (guard destroyed
//                  unaccepted: its destructor restores).
//   state        = history replayed on a FRESH object; canonical form ( offset of current in the
//                  buffer, offset of end in the buffer, stream offset of the buffer start, reader
//                  offset, mark stack as stream offsets, overflow_error ended the history ).
//                  Only histories whose canonical state is new are extended.  A history that ended
//                  in std::overflow_error is terminal (the exception ends the parsing run).
//   bound        : BOTH tiers run every configuration to the FIXPOINT (no new canonical state); no
//                  depth bound is applied (measured: longest minimal history 15 (quick) / 19
//                  (thorough); a safety cap of depth 64 exists and is reported in the counter
//                  "configurations stopped by the depth cap", expected absent).
//   sharding     : configurations are numbered in enumeration order (n outermost); configuration
//                  i belongs to shard i % nshards; each is explored completely (both reader
//                  modes) by exactly one shard.
//   cost         : per shard of 16, alone on a core: quick ~1.3 s (gcc -O1) / ~10 s (clang ASan+UBSan),
//                  thorough ~7 s (gcc) / ~50 s (ASan+UBSan).
//
// REFERENCE MODEL (struct Model below: integer arithmetic from doc/Inputs-and-Parsing.md,
//   "Incremental Input", not from the code) and the invariants checked after EVERY operation: see
//   the comment block in front of check_step().
//
// CASE STRING   c=<Chunk>;m=<maximum>;n=<n>;nl=<offset or ->;rd=<any|full>;h=<step>.<step>...
//   step = r<k> s<k> z<k> e b<j> i<j> l<j> d m t x f, each optionally followed by /<a1>/<a2>.. = the reader's answers
//   to the calls made during that step (calls beyond the listed answers are answered in full).
#include <tao/pegtl/buffer_input.hpp>
#include <tao/pegtl/eol.hpp>
#include <tao/pegtl/rewind_mode.hpp>

#include "engine/common.hpp"

#include <algorithm>
#include <csignal>
#include <memory>
#include <stdexcept>
#include <string>
#include <unordered_map>
#include <vector>

#include <unistd.h>

#if defined( __has_feature )
#if __has_feature( address_sanitizer )
#define C07_CLANG_ASAN 1
#endif
#endif
#if !defined( C07_CLANG_ASAN )
#define C07_CLANG_ASAN 0
#endif

namespace pegtl = tao::pegtl;

// ------------------------------------------------------------------------------------------------
// configuration
// ------------------------------------------------------------------------------------------------
struct Config
{
   int chunk = 1;
   int maximum = 1;
   int n = 0;
   int nl = -1;  // offset of the '\n' or -1
   bool full = false;

   int cap() const { return maximum + chunk; }
   std::string stream() const
   {
      std::string s;
      for( int i = 0; i < n; ++i ) s += char( i == nl ? '\n' : 'a' + i );
      return s;
   }
   std::string head() const
   {
      return "c=" + std::to_string( chunk ) + ";m=" + std::to_string( maximum ) + ";n=" + std::to_string( n ) + ";nl=" + ( nl < 0 ? std::string( "-" ) : std::to_string( nl ) ) + ";rd=" + ( full ? "full" : "any" );
   }
   std::string group() const
   {
      return "Chunk=" + std::to_string( chunk ) + " maximum=" + std::to_string( maximum );
   }
};

static int g_kmax = 4;        // require / size amounts 0..g_kmax
static int g_maxmarks = 2;    // marks held at the same time
static int g_jmax = 2;        // bump amounts 1..min( g_jmax, occupied )
static int g_depthcap = 64;   // safety cap only

// ------------------------------------------------------------------------------------------------
// environment: the stream and the reader whose answers are taken from the explored history
// ------------------------------------------------------------------------------------------------
struct Env
{
   std::string stream;
   std::size_t roff = 0;        // bytes handed out so far
   const char* base = nullptr;  // start of the library's allocation (known after construction)
   std::size_t cap = 0;
   bool full = false;

   std::vector< int > script;  // answers for the calls of the current step
   std::size_t sp = 0;

   struct Call
   {
      long off;          // buffer pointer relative to the allocation
      std::size_t len;   // length asked
      std::size_t rem;   // bytes remaining in the stream at the time of the call
      std::size_t ans;   // bytes delivered
      bool scripted;
   };
   std::vector< Call > calls;  // calls of the current step
   bool script_mismatch = false;
};

struct Reader
{
   Env* e;
   explicit Reader( Env* in_e ) noexcept
      : e( in_e )
   {}

   std::size_t operator()( char* buffer, const std::size_t length )
   {
      const std::size_t rem = e->stream.size() - e->roff;
      const std::size_t most = ( std::min )( length, rem );
      std::size_t ans = most;  // default: full read
      bool scripted = false;
      if( !e->full && e->sp < e->script.size() ) {
         const long a = e->script[ e->sp++ ];
         scripted = true;
         if( most == 0 ? a != 0 : ( a < 1 || std::size_t( a ) > most ) ) {
            e->script_mismatch = true;  // illegal answer in a replayed case: clamp, never act illegally
            ans = most == 0 ? 0 : ( a < 1 ? 1 : most );
         }
         else
            ans = std::size_t( a );
      }
      const long off = e->base ? long( buffer - e->base ) : 0;
      // never write outside the allocation ourselves: deliver only what lies inside, the call is
      // recorded as asked and reported by the checker
      std::size_t writable = ans;
      if( off < 0 )
         writable = 0;
      else if( std::size_t( off ) >= e->cap )
         writable = 0;
      else
         writable = ( std::min )( ans, e->cap - std::size_t( off ) );
      for( std::size_t i = 0; i < writable; ++i ) buffer[ i ] = e->stream[ e->roff + i ];
      e->calls.push_back( { off, length, rem, ans, scripted } );
      e->roff += ans;
      return ans;
   }
};

// ------------------------------------------------------------------------------------------------
// the real object behind a Chunk-independent interface
// ------------------------------------------------------------------------------------------------
struct Obs
{
   std::size_t cap = 0, occ = 0, fb = 0, fa = 0;
   std::size_t byte = 0, line = 0, col = 0;
   std::size_t pbyte = 0, pline = 0, pcol = 0;
   bool psource_ok = true;
   long cur_off = 0, end_off = 0;
   std::string win_peek, win_ptr;  // window bytes through peek_char( i ) and through current()[ i ]
};

struct IObj
{
   virtual ~IObj() = default;
   virtual void require( std::size_t k ) = 0;
   virtual std::size_t size( std::size_t k ) = 0;
   virtual bool empty() = 0;
   virtual long end_off( std::size_t k, const Env& e ) = 0;
   virtual void bump( std::size_t j ) = 0;
   virtual void bump_in_this_line( std::size_t j ) = 0;
   virtual void bump_to_next_line( std::size_t j ) = 0;
   virtual void discard() = 0;
   virtual void mark() = 0;
   virtual void restore_top() = 0;
   virtual void accept_top() = 0;
   virtual void fail_top() = 0;
   virtual std::size_t nmarks() const = 0;
   virtual Obs observe( const Env& e ) = 0;
   virtual void sizes( std::size_t& fb, std::size_t& occ ) const = 0;
};

template< std::size_t Chunk >
struct ObjT : IObj
{
   using In = pegtl::buffer_input< Reader, pegtl::eol::lf_crlf, std::string, Chunk >;
   using Guard = pegtl::internal::rewind_guard< pegtl::rewind_mode::required, In >;

   In in;                                          // declared first: destroyed after the guards
   std::vector< std::unique_ptr< Guard > > guards;

   ObjT( Env* e, std::size_t maximum )
      : in( "c07", maximum, e )
   {
      e->base = in.current();  // m_current == m_buffer.get() directly after construction
      e->cap = maximum + Chunk;
   }
   ~ObjT() override
   {
      while( !guards.empty() ) guards.pop_back();  // innermost first, like nested rules
   }
   void require( std::size_t k ) override { in.require( k ); }
   std::size_t size( std::size_t k ) override { return in.size( k ); }
   bool empty() override { return in.empty(); }
   long end_off( std::size_t k, const Env& e ) override { return long( in.end( k ) - e.base ); }
   void bump( std::size_t j ) override { in.bump( j ); }
   void bump_in_this_line( std::size_t j ) override { in.bump_in_this_line( j ); }
   void bump_to_next_line( std::size_t j ) override { in.bump_to_next_line( j ); }
   void discard() override { in.discard(); }
   void mark() override { guards.emplace_back( new Guard( in.template auto_rewind< pegtl::rewind_mode::required >() ) ); }
   void restore_top() override { in.rewind_restore( guards.back()->inputerator() ); }
   void accept_top() override
   {
      (void)( *guards.back() )( true );
      guards.pop_back();
   }
   void fail_top() override
   {
      (void)( *guards.back() )( false );
      guards.pop_back();  // destructor restores
   }
   std::size_t nmarks() const override { return guards.size(); }

   void sizes( std::size_t& fb, std::size_t& occ ) const override
   {
      fb = in.buffer_free_before_current();
      occ = in.buffer_occupied();
   }

   Obs observe( const Env& e ) override
   {
      Obs o;
      o.cap = in.buffer_capacity();
      o.occ = in.buffer_occupied();
      o.fb = in.buffer_free_before_current();
      o.fa = in.buffer_free_after_end();
      o.byte = in.byte();
      o.line = in.line();
      o.col = in.column();
      const auto p = in.position();
      o.pbyte = p.byte;
      o.pline = p.line;
      o.pcol = p.column;
      o.psource_ok = ( p.source == "c07" ) && ( in.source() == "c07" );
      o.cur_off = long( in.current() - e.base );
      o.end_off = long( in.end( 0 ) - e.base );  // require( 0 ) never reads
      // only dereference what provably lies inside the allocation
      if( o.cur_off >= 0 && o.end_off >= o.cur_off && std::size_t( o.end_off ) <= e.cap && o.occ == std::size_t( o.end_off - o.cur_off ) ) {
         for( std::size_t i = 0; i < o.occ; ++i ) {
            o.win_peek += in.peek_char( i );
            o.win_ptr += in.current()[ i ];
         }
      }
      return o;
   }
};

static std::unique_ptr< IObj > make_obj( const Config& c, Env* e )
{
   switch( c.chunk ) {
      case 1:
         return std::unique_ptr< IObj >( new ObjT< 1 >( e, std::size_t( c.maximum ) ) );
      case 2:
         return std::unique_ptr< IObj >( new ObjT< 2 >( e, std::size_t( c.maximum ) ) );
      case 3:
         return std::unique_ptr< IObj >( new ObjT< 3 >( e, std::size_t( c.maximum ) ) );
      case 64:
         return std::unique_ptr< IObj >( new ObjT< 64 >( e, std::size_t( c.maximum ) ) );
   }
   return nullptr;
}

// ------------------------------------------------------------------------------------------------
// histories
// ------------------------------------------------------------------------------------------------
struct Step
{
   char op = 'e';  // r s e b d m t x f
   int arg = 0;
   std::vector< int > ans;
};

static std::string step_str( const Step& s )
{
   std::string r( 1, s.op );
   if( s.op == 'r' || s.op == 's' || s.op == 'z' || s.op == 'b' || s.op == 'i' || s.op == 'l' ) r += std::to_string( s.arg );
   for( int a : s.ans ) r += "/" + std::to_string( a );
   return r;
}

static std::string step_name( const Step& s )
{
   switch( s.op ) {
      case 'r':
         return "require(" + std::to_string( s.arg ) + ")";
      case 's':
         return "size(" + std::to_string( s.arg ) + ")";
      case 'z':
         return "end(" + std::to_string( s.arg ) + ")";
      case 'e':
         return "empty()";
      case 'b':
         return "bump(" + std::to_string( s.arg ) + ")";
      case 'i':
         return "bump_in_this_line(" + std::to_string( s.arg ) + ")";
      case 'l':
         return "bump_to_next_line(" + std::to_string( s.arg ) + ")";
      case 'd':
         return "discard()";
      case 'm':
         return "mark";
      case 't':
         return "restore";
      case 'x':
         return "drop-mark";
      case 'f':
         return "fail-mark";
   }
   return "?";
}

static const char* op_class( char op )
{
   switch( op ) {
      case 'r':
         return "require(k)";
      case 's':
         return "size(k)";
      case 'z':
         return "end(k)";
      case 'e':
         return "empty()";
      case 'b':
         return "bump(j)";
      case 'i':
         return "bump_in_this_line(j)";
      case 'l':
         return "bump_to_next_line(j)";
      case 'd':
         return "discard()";
      case 'm':
         return "mark (auto_rewind)";
      case 't':
         return "rewind_restore";
      case 'x':
         return "drop-mark (guard accepted)";
      case 'f':
         return "fail-mark (guard destructor)";
   }
   return "?";
}

static std::string hist_str( const std::vector< Step >& h )
{
   std::string r;
   for( std::size_t i = 0; i < h.size(); ++i ) {
      if( i ) r += ".";
      r += step_str( h[ i ] );
   }
   return r;
}

static bool parse_case( const std::string& s, Config& c, std::vector< Step >& h )
{
   for( const std::string& f : vf::split( s, ';' ) ) {
      if( f.size() < 2 ) continue;
      const auto eq = f.find( '=' );
      if( eq == std::string::npos ) return false;
      const std::string k = f.substr( 0, eq ), v = f.substr( eq + 1 );
      if( k == "c" )
         c.chunk = atoi( v.c_str() );
      else if( k == "m" )
         c.maximum = atoi( v.c_str() );
      else if( k == "n" )
         c.n = atoi( v.c_str() );
      else if( k == "nl" )
         c.nl = ( v == "-" ) ? -1 : atoi( v.c_str() );
      else if( k == "rd" )
         c.full = ( v == "full" );
      else if( k == "h" ) {
         if( v.empty() ) continue;
         for( const std::string& t : vf::split( v, '.' ) ) {
            if( t.empty() ) return false;
            const auto parts = vf::split( t, '/' );
            Step st;
            st.op = parts[ 0 ][ 0 ];
            if( std::string( "rszebildmtxf" ).find( st.op ) == std::string::npos ) return false;
            st.arg = parts[ 0 ].size() > 1 ? atoi( parts[ 0 ].c_str() + 1 ) : 0;
            for( std::size_t i = 1; i < parts.size(); ++i ) st.ans.push_back( atoi( parts[ i ].c_str() ) );
            h.push_back( st );
         }
      }
   }
   return ( c.chunk == 1 || c.chunk == 2 || c.chunk == 3 || c.chunk == 64 ) && c.maximum >= 0 && c.n >= 0 && c.n <= 20;
}

// ------------------------------------------------------------------------------------------------
// REFERENCE MODEL - the documented behaviour, integers only
//   doc/Inputs-and-Parsing.md:
//     "The buffer capacity is the sum of a maximum value and a chunk size."
//     "The require( amount ) member function tells the input to make available at least amount
//      unconsumed bytes of input data."
//     "The empty(), size( amount ) and end( amount ) member functions call require( amount ), or,
//      in the case of empty(), require( 1 )."
//     "Reaching the end of the input MUST be the only reason for the reader to return zero."
//     "A discard does nothing when there are less than Chunk bytes of consumed buffered data."
//     "... guarantee that at least maximum bytes can be buffered after a call to discard, even
//      when it does nothing."
//   buffer_input.hpp: require() throws std::overflow_error( "require() beyond end of buffer" ).
// ------------------------------------------------------------------------------------------------
struct Model
{
   int n = 0, maximum = 0, chunk = 0;  // configuration
   int nl = -1;
   int pos = 0;  // stream offset of the cursor
   int cb = 0;   // distance of the cursor from the start of the buffer (consumed buffered data)
   int occ = 0;  // unconsumed bytes available at the cursor
   struct Mark
   {
      int pos, cb;
   };
   std::vector< Mark > marks;

   int cap() const { return maximum + chunk; }
   int remaining() const { return n - pos; }
   // overflow_error is permitted only when the request cannot fit behind the cursor
   bool overflow_permitted( int k ) const { return cb + k > cap(); }
   // after require( k ) returned: at least k bytes, or everything the stream still has
   int least_after_require( int k ) const { return ( std::min )( k, remaining() ); }
   bool is_empty() const { return remaining() == 0; }
   void bump( int j )
   {
      pos += j;
      cb += j;
      occ -= j;
   }
   void restore( const Mark& m )
   {
      occ += pos - m.pos;  // the bytes behind the mark are still there
      pos = m.pos;
      cb = m.cb;
   }
   // discard: logical content unchanged; afterwards at most Chunk consumed bytes stay in front
   // of the cursor, so that maximum bytes fit: cb' in { cb, 0 } and cb' <= Chunk
   bool discard_ok( int cb_after ) const { return ( cb_after == cb || cb_after == 0 ) && cb_after <= chunk; }
   // position = function of the consumed prefix
   int byte() const { return pos; }
   int line() const { return 1 + ( nl >= 0 && nl < pos ? 1 : 0 ); }
   int column() const { return 1 + ( nl >= 0 && nl < pos ? pos - nl - 1 : pos ); }
};

// ------------------------------------------------------------------------------------------------
// canonical states
// ------------------------------------------------------------------------------------------------
struct CState
{
   int cb = 0, eb = 0, bs = 0, ro = 0;
   std::vector< int > marks;
   bool ovf = false;

   uint64_t key() const
   {
      uint64_t k = 0;
      auto put = [ & ]( uint64_t v, int bits ) { k = ( k << bits ) | ( v & ( ( 1ull << bits ) - 1 ) ); };
      put( uint64_t( cb ), 8 );
      put( uint64_t( eb ), 8 );
      put( uint64_t( bs + 64 ), 8 );  // bs may be reported negative only if something is badly wrong
      put( uint64_t( ro ), 6 );
      put( marks.size(), 3 );
      for( int m : marks ) put( uint64_t( m ), 6 );
      put( ovf ? 1 : 0, 1 );
      return k;
   }
   std::string str() const
   {
      std::string s = "cur@" + std::to_string( cb ) + " end@" + std::to_string( eb ) + " bufstart=stream+" + std::to_string( bs ) + " reader@" + std::to_string( ro ) + " marks[";
      for( std::size_t i = 0; i < marks.size(); ++i ) s += ( i ? "," : "" ) + std::to_string( marks[ i ] );
      s += "]";
      if( ovf ) s += " overflow_error";
      return s;
   }
};

// ------------------------------------------------------------------------------------------------
// buffered violations: per signature the count and the 3 shortest cases; emitted at the end
// ------------------------------------------------------------------------------------------------
struct VRec
{
   long count = 0;
   struct One
   {
      std::size_t len;
      std::string detail, the_case;
   };
   std::vector< One > best;
};
static std::map< std::string, VRec > g_viol;
static long g_viol_total = 0;

static void report( const std::string& sig, const Config& c, const std::vector< Step >& hist, const std::string& op, const std::string& expected, const std::string& observed )
{
   ++g_viol_total;
   VRec& r = g_viol[ sig ];
   ++r.count;
   const std::size_t len = hist.size();
   if( r.best.size() < 3 || len < r.best.back().len ) {
      const std::string h = hist_str( hist );
      std::string d = "\"config\":\"" + vf::jesc( c.group() + " n=" + std::to_string( c.n ) + " stream=" + vf::show( c.stream() ) + " reader=" + ( c.full ? "full" : "any" ) ) + "\",\"history\":\"" + vf::jesc( h ) + "\",\"op\":\"" + vf::jesc( op ) + "\",\"expected\":\"" + vf::jesc( expected ) + "\",\"observed\":\"" + vf::jesc( observed ) + "\"";
      r.best.push_back( { len, d, c.head() + ";h=" + h } );
      std::stable_sort( r.best.begin(), r.best.end(), []( const VRec::One& a, const VRec::One& b ) { return a.len < b.len; } );
      if( r.best.size() > 3 ) r.best.pop_back();
   }
}

static void emit_violations()
{
   for( auto& kv : g_viol ) {
      for( auto& o : kv.second.best ) vf::violation( kv.first, o.detail, o.the_case );
      for( long i = long( kv.second.best.size() ); i < kv.second.count; ++i ) vf::violation( kv.first, "", "" );  // counted, not printed (cap)
   }
}

// ------------------------------------------------------------------------------------------------
// one execution context: fresh object + environment + model
// ------------------------------------------------------------------------------------------------
struct Ctx
{
   Config cfg;
   Env env;
   std::unique_ptr< IObj > obj;
   Model m;
   const std::vector< Step >* prefix = nullptr;  // already checked history re-established by plain_step()
   std::vector< Step > done;                     // steps executed by check_step() after the prefix
   std::vector< Step > history() const
   {
      std::vector< Step > h;
      if( prefix ) h = *prefix;
      h.insert( h.end(), done.begin(), done.end() );
      return h;
   }
   bool ovf = false;
   bool short_read_seen = false;  // some reader call delivered less than asked and less than remaining
   bool harness_error = false;

   explicit Ctx( const Config& c )
      : cfg( c )
   {
      env.stream = c.stream();
      env.full = c.full;
      obj = make_obj( c, &env );
      m.n = c.n;
      m.maximum = c.maximum;
      m.chunk = c.chunk;
      m.nl = c.nl;
   }

   CState cstate() const
   {
      CState s;
      s.cb = m.cb;
      s.eb = m.cb + m.occ;
      s.bs = m.pos - m.cb;
      s.ro = int( env.roff );
      for( auto& k : m.marks ) s.marks.push_back( k.pos );
      s.ovf = ovf;
      return s;
   }
};

// raw execution of one step on the real object; returns 0 ok, 1 overflow_error, 2 other exception
static int raw_step( Ctx& x, const Step& s, std::size_t& size_result, bool& empty_result, long& end_result, std::string& what )
{
   x.env.calls.clear();
   x.env.script = s.ans;
   x.env.sp = 0;
   try {
      switch( s.op ) {
         case 'r':
            x.obj->require( std::size_t( s.arg ) );
            break;
         case 's':
            size_result = x.obj->size( std::size_t( s.arg ) );
            break;
         case 'z':
            end_result = x.obj->end_off( std::size_t( s.arg ), x.env );
            break;
         case 'e':
            empty_result = x.obj->empty();
            break;
         case 'b':
            x.obj->bump( std::size_t( s.arg ) );
            break;
         case 'i':
            x.obj->bump_in_this_line( std::size_t( s.arg ) );
            break;
         case 'l':
            x.obj->bump_to_next_line( std::size_t( s.arg ) );
            break;
         case 'd':
            x.obj->discard();
            break;
         case 'm':
            x.obj->mark();
            break;
         case 't':
            x.obj->restore_top();
            break;
         case 'x':
            x.obj->accept_top();
            break;
         case 'f':
            x.obj->fail_top();
            break;
      }
   }
   catch( const std::overflow_error& e ) {
      what = e.what();
      return 1;
   }
   catch( const std::exception& e ) {
      what = e.what();
      return 2;
   }
   catch( ... ) {
      what = "unknown exception";
      return 2;
   }
   return 0;
}

// is the step a legal move of the harness in the model's state?  (bump beyond the buffered data,
// discard under a mark, mark operations without a mark would be harness errors, not library errors)
static bool legal( const Model& m, const Step& s )
{
   switch( s.op ) {
      case 'r':
      case 's':
      case 'z':
         return s.arg >= 0;
      case 'e':
         return true;
      case 'b':
         return s.arg >= 1 && s.arg <= m.occ;
      case 'i':  // documented use: no line ending among the bytes
         return s.arg >= 1 && s.arg <= m.occ && !( m.nl >= m.pos && m.nl < m.pos + s.arg );
      case 'l':  // documented use: the bytes end with the (only) line ending
         return s.arg >= 1 && s.arg <= m.occ && m.nl == m.pos + s.arg - 1;
      case 'd':
         return m.marks.empty();
      case 'm':
         return true;
      case 't':
      case 'x':
      case 'f':
         return !m.marks.empty();
   }
   return false;
}

// fast path used to re-establish an already checked state: executes and advances the model from
// what the object reports (no checks)
static void plain_step( Ctx& x, const Step& s )
{
   std::size_t sr = 0;
   bool er = false;
   long zr = 0;
   std::string what;
   const int rc = raw_step( x, s, sr, er, zr, what );
   if( rc != 0 ) {
      x.ovf = true;
      return;
   }
   for( auto& c : x.env.calls )
      if( c.ans < c.len && c.ans < c.rem ) x.short_read_seen = true;
   Model& m = x.m;
   switch( s.op ) {
      case 'b':
      case 'i':
      case 'l':
         m.bump( s.arg );
         break;
      case 'm':
         m.marks.push_back( { m.pos, m.cb } );
         break;
      case 't':
         m.restore( m.marks.back() );
         break;
      case 'f':
         m.restore( m.marks.back() );
         m.marks.pop_back();
         break;
      case 'x':
         m.marks.pop_back();
         break;
      default:
         break;
   }
   std::size_t fb = 0, occ = 0;
   x.obj->sizes( fb, occ );
   m.cb = int( fb );
   m.occ = int( occ );
}

// ------------------------------------------------------------------------------------------------
// CHECKED STEP - invariants after every operation on the real object
//   (1) every byte of [ current(), current() + buffer_occupied() ) equals the stream byte at its
//       stream offset, through peek_char( i ) and through the pointer; reader offset == cursor
//       offset + occupied (no byte lost or duplicated)
//   (2) byte() / line() / column() and position() equal the position formula of the model
//   (3) occupied + free_before_current + free_after_end == buffer_capacity() == maximum + Chunk;
//       current() and end( 0 ) lie inside the allocation and agree with the accounting
//   (4) the reader is only asked to write inside the allocation, and at the end of the buffered
//       data; zero-length requests are counted (and would surface through (5) if harmful)
//   (5) postconditions: require / size / empty / bump / discard / mark / restore against the model
//   (6) std::overflow_error only when the model permits it, any other exception is a violation;
//       an operation that throws leaves the object unchanged
// ------------------------------------------------------------------------------------------------
static long g_zero_len_requests = 0;
static long g_reader_calls = 0;
static long g_reader_short = 0;
static long g_multi_call_ops = 0;
static long g_overflow_seen = 0;
static long g_overflow_at_end_of_stream = 0;  // overflow although the stream has fewer than k bytes left (permitted, documented for eof)
static long g_short_read_cases = 0;
static long g_discard_noop_at_chunk = 0;  // doc: "does nothing when there are less than Chunk bytes of consumed buffered data"; code also does nothing with exactly Chunk (harmless: maximum bytes still fit)
static long g_discard_moved = 0;

// a failing assert() inside the library (or a fatal signal) must not lose the case: report it
// under its own signature together with everything found so far and stop this shard
static Ctx* g_cur_ctx = nullptr;
static const Step* g_cur_step = nullptr;

static void on_fatal( int sig )
{
   signal( sig, SIG_DFL );
   if( g_cur_ctx && g_cur_step ) {
      report( std::string( "C07|assertion of the library failed or fatal signal|" ) + op_class( g_cur_step->op ), g_cur_ctx->cfg, g_cur_ctx->history(), step_name( *g_cur_step ), "operation returns or throws std::overflow_error", sig == SIGABRT ? "SIGABRT (assert)" : "fatal signal " + std::to_string( sig ) );
   }
   emit_violations();
   vf::st.exhaustive = false;
   vf::st.note = "C07 buffer_input BFS: STOPPED by a fatal signal inside the library, see the violation; exploration incomplete";
   vf::finish();
   _exit( 0 );
}

static void check_step( Ctx& x, const Step& s )
{
   const Config& c = x.cfg;
   Model& m = x.m;
   const Model pre = m;
   const std::size_t ro_pre = x.env.roff;
   x.done.push_back( s );
   const char* const opc = op_class( s.op );
   auto V = [ & ]( const std::string& sig, const std::string& expected, const std::string& observed ) {
      report( "C07|" + sig, c, x.history(), step_name( s ), expected, observed );
      // the memory-safety invariants of the buffer are also what C03 states for buffer_input::require
      if( sig.find( "outside the allocation" ) != std::string::npos ) report( "C03|" + sig, c, x.history(), step_name( s ), expected, observed );
   };

   if( !legal( m, s ) ) {
      x.harness_error = true;
      return;
   }
   g_cur_ctx = &x;
   g_cur_step = &s;
   std::size_t size_result = 0;
   bool empty_result = false;
   long end_result = 0;
   std::string what;
   const int rc = raw_step( x, s, size_result, empty_result, end_result, what );
   const Obs o = x.obj->observe( x.env );
   g_cur_ctx = nullptr;
   g_cur_step = nullptr;

   // reader calls of this step -------------------------------------------------------------- (4)
   std::size_t delivered = 0;
   bool short_read = false, under_asked = false;
   {
      long expect_off = pre.cb + pre.occ;
      for( auto& k : x.env.calls ) {
         ++g_reader_calls;
         if( k.len == 0 ) ++g_zero_len_requests;
         if( k.off < 0 || std::size_t( k.off ) + k.len > std::size_t( c.cap() ) ) V( "reader asked to write outside the allocation|" + std::string( opc ), "buffer + length inside [0," + std::to_string( c.cap() ) + "]", "offset " + std::to_string( k.off ) + " length " + std::to_string( k.len ) );
         if( k.off != expect_off ) V( "reader asked to write somewhere else than the end of the buffered data|" + std::string( opc ), "offset " + std::to_string( expect_off ), "offset " + std::to_string( k.off ) );
         if( k.ans < k.len && k.ans < k.rem ) {
            short_read = true;
            ++g_reader_short;
         }
         delivered += k.ans;
         expect_off += long( k.ans );
      }
      if( x.env.calls.size() > 1 ) ++g_multi_call_ops;
      if( short_read ) x.short_read_seen = true;
      if( x.env.script_mismatch ) x.harness_error = true;
   }
   const bool is_req = ( s.op == 'r' || s.op == 's' || s.op == 'z' || s.op == 'e' );
   const int k = ( s.op == 'e' ) ? 1 : s.arg;

   // exceptions ------------------------------------------------------------------------------ (6)
   if( rc == 2 ) V( "exception other than std::overflow_error|" + std::string( opc ), "no exception or std::overflow_error", what );
   if( rc == 1 ) {
      ++g_overflow_seen;
      if( !is_req )
         V( "std::overflow_error from an operation that does not require input|" + std::string( opc ), "no exception", what );
      else {
         if( !pre.overflow_permitted( k ) ) V( "std::overflow_error although the requested bytes fit between current and the end of the allocation|" + std::string( opc ), "no overflow: current offset " + std::to_string( pre.cb ) + " + " + std::to_string( k ) + " <= capacity " + std::to_string( c.cap() ), "std::overflow_error: " + what );
         if( pre.remaining() < k ) ++g_overflow_at_end_of_stream;
      }
      if( int( o.fb ) != pre.cb || int( o.occ ) != pre.occ || int( o.byte ) != pre.pos || delivered != 0 ) V( "operation that threw changed the object|" + std::string( opc ), "cur@" + std::to_string( pre.cb ) + " occupied " + std::to_string( pre.occ ) + " byte " + std::to_string( pre.pos ) + " no reader call", "cur@" + std::to_string( o.fb ) + " occupied " + std::to_string( o.occ ) + " byte " + std::to_string( o.byte ) + " delivered " + std::to_string( delivered ) );
      x.ovf = true;
   }

   // expected successor according to the model ----------------------------------------------- (5)
   if( rc == 0 ) {
      switch( s.op ) {
         case 'b':
         case 'i':
         case 'l':
            m.bump( s.arg );
            break;
         case 'm':
            m.marks.push_back( { m.pos, m.cb } );
            break;
         case 't':
            m.restore( m.marks.back() );
            break;
         case 'f':
            m.restore( m.marks.back() );
            m.marks.pop_back();
            break;
         case 'x':
            m.marks.pop_back();
            break;
         default:
            break;
      }
      m.occ += int( delivered );
      if( x.obj->nmarks() != m.marks.size() ) x.harness_error = true;

      if( int( o.byte ) != m.pos ) V( "cursor at the wrong stream offset|" + std::string( opc ), "byte() == " + std::to_string( m.pos ), "byte() == " + std::to_string( o.byte ) );
      if( s.op == 'd' ) {
         if( int( o.fb ) > c.chunk ) V( "discard() leaves more than Chunk consumed bytes in front of current, so less than maximum bytes can be required", "free_before_current <= " + std::to_string( c.chunk ), "free_before_current == " + std::to_string( o.fb ) );
         else if( !pre.discard_ok( int( o.fb ) ) )
            V( "discard() moved current to an unexpected place", "free_before_current 0 or " + std::to_string( pre.cb ), "free_before_current == " + std::to_string( o.fb ) );
         if( int( o.occ ) != m.occ ) V( "discard() changed the amount of unconsumed buffered data", "occupied == " + std::to_string( m.occ ), "occupied == " + std::to_string( o.occ ) );
         m.cb = int( o.fb );
         if( pre.cb == c.chunk && int( o.fb ) == pre.cb ) ++g_discard_noop_at_chunk;
         if( int( o.fb ) == 0 && pre.cb > 0 ) ++g_discard_moved;
      }
      else if( int( o.fb ) != m.cb )
         V( "current() at the wrong place in the buffer|" + std::string( opc ), "free_before_current == " + std::to_string( m.cb ), "free_before_current == " + std::to_string( o.fb ) );
      if( s.op != 'd' && int( o.occ ) != m.occ ) V( "unconsumed buffered data not equal to previous data plus what the reader delivered|" + std::string( opc ), "occupied == " + std::to_string( m.occ ), "occupied == " + std::to_string( o.occ ) );
      if( !is_req && !x.env.calls.empty() ) vf::count( "reader calls from operations other than require/size/empty (allowed, informational)" );

      if( is_req ) {
         const int least = pre.least_after_require( k );
         if( int( o.occ ) < least ) {
            // classification by root cause: did the library stop although the reader had just
            // delivered (legally) less than asked, or did it not ask (enough) at all
            const std::string exp = "at least min(k, remaining) == " + std::to_string( least ) + " bytes available (stream has " + std::to_string( pre.remaining() ) + " from the cursor)";
            std::string calls;
            for( auto& q : x.env.calls ) calls += " reader(len " + std::to_string( q.len ) + ")->" + std::to_string( q.ans );
            const std::string obs = std::to_string( o.occ ) + " bytes available after" + ( calls.empty() ? std::string( " no reader call" ) : calls ) + ( s.op == 's' ? "; size() returned " + std::to_string( size_result ) : "" );
            if( short_read ) {
               ++g_short_read_cases;
               vf::count( s.op == 'r' ? "short-read cases via require(k)" : ( s.op == 's' ? "short-read cases via size(k)" : ( s.op == 'z' ? "short-read cases via end(k)" : "short-read cases via empty()" ) ) );
               V( "require(k) returns with fewer than k bytes although the stream has them|short read", exp, obs + " (legal partial answer of the reader is not followed up by another call)" );
            }
            else {
               for( auto& q : x.env.calls )
                  if( q.ans == q.len ) under_asked = true;
               V( std::string( "require(k) returns with fewer than k bytes although the stream has them|" ) + ( x.env.calls.empty() ? "reader not called" : ( under_asked ? "reader asked for too little" : "reader answered in full" ) ), exp, obs );
            }
         }
         if( pre.overflow_permitted( k ) && int( o.occ ) >= k ) V( "require(k) claims k bytes that cannot fit into the buffer|" + std::string( opc ), "overflow_error or fewer bytes", std::to_string( o.occ ) + " bytes" );
         if( s.op == 'z' && end_result != long( o.fb + o.occ ) ) V( "end(k) differs from current() + buffer_occupied() after the implicit require", "end@" + std::to_string( o.fb + o.occ ), "end@" + std::to_string( end_result ) );
         if( s.op == 's' && size_result != o.occ ) V( "size(k) differs from buffer_occupied() after the implicit require", std::to_string( o.occ ), std::to_string( size_result ) );
         if( s.op == 'e' && empty_result != pre.is_empty() ) V( "empty() disagrees with the stream", pre.is_empty() ? "true: no byte remains at the cursor" : "false: bytes remain at the cursor", empty_result ? "true" : "false" );
      }
      // adopt the observation so that exploration continues from the object's real state
      m.cb = int( o.fb );
      m.occ = int( o.occ );
   }

   // accounting and pointers ----------------------------------------------------------------- (3)
   if( o.cap != std::size_t( c.cap() ) || o.occ + o.fb + o.fa != o.cap ) V( "buffer accounting: occupied + free_before_current + free_after_end != buffer_capacity() == maximum + Chunk", "capacity " + std::to_string( c.cap() ), "capacity " + std::to_string( o.cap ) + " occupied " + std::to_string( o.occ ) + " before " + std::to_string( o.fb ) + " after " + std::to_string( o.fa ) );
   if( o.cur_off < 0 || o.end_off < o.cur_off || o.end_off > long( c.cap() ) ) V( "current() or end() outside the allocation|" + std::string( opc ), "0 <= current <= end <= " + std::to_string( c.cap() ), "current@" + std::to_string( o.cur_off ) + " end@" + std::to_string( o.end_off ) );
   else if( std::size_t( o.cur_off ) != o.fb || std::size_t( o.end_off - o.cur_off ) != o.occ )
      V( "current()/end(0) disagree with buffer_free_before_current()/buffer_occupied()", "current@" + std::to_string( o.fb ) + " end@" + std::to_string( o.fb + o.occ ), "current@" + std::to_string( o.cur_off ) + " end@" + std::to_string( o.end_off ) );

   // window content -------------------------------------------------------------------------- (1)
   {
      const int p = int( o.byte );
      if( p < 0 || p + int( o.occ ) > c.n )
         V( "more unconsumed bytes buffered than the stream has|" + std::string( opc ), "cursor + occupied <= " + std::to_string( c.n ), "cursor " + std::to_string( p ) + " occupied " + std::to_string( o.occ ) );
      else {
         const std::string want = x.env.stream.substr( std::size_t( p ), o.occ );
         if( o.win_ptr != want || o.win_peek != want ) V( "window bytes differ from the stream bytes at their offsets|after " + std::string( opc ), vf::show( want ), "pointer: " + vf::show( o.win_ptr ) + " peek_char: " + vf::show( o.win_peek ) );
      }
      if( x.env.roff != ro_pre + delivered || std::size_t( p ) + o.occ != x.env.roff ) V( "bytes lost or duplicated between reader and window|" + std::string( opc ), "cursor + occupied == reader offset " + std::to_string( x.env.roff ), "cursor " + std::to_string( p ) + " occupied " + std::to_string( o.occ ) );
   }

   // position -------------------------------------------------------------------------------- (2)
   {
      Model f = m;
      f.pos = int( o.byte );  // a wrong byte() was reported above; judge line/column against it
      if( int( o.line ) != f.line() || int( o.col ) != f.column() ) V( "line()/column() differ from the position formula|after " + std::string( opc ), "line " + std::to_string( f.line() ) + " column " + std::to_string( f.column() ), "line " + std::to_string( o.line ) + " column " + std::to_string( o.col ) );
      if( o.pbyte != o.byte || o.pline != o.line || o.pcol != o.col || !o.psource_ok ) V( "position() differs from byte()/line()/column()/source()", std::to_string( o.byte ) + ":" + std::to_string( o.line ) + ":" + std::to_string( o.col ), std::to_string( o.pbyte ) + ":" + std::to_string( o.pline ) + ":" + std::to_string( o.pcol ) );
   }
}

// ------------------------------------------------------------------------------------------------
// breadth-first search for one configuration
// ------------------------------------------------------------------------------------------------
struct Node
{
   int parent = -1;
   Step step;
   int depth = 0;
   CState st;
   bool via_short = false;
};

struct BfsResult
{
   long states = 0, transitions = 0, histories = 0, overflow_states = 0, nontrivial = 0, discard_pruned = 0;
   int maxdepth = 0;
   bool fixpoint = true;
   bool timed_out = false;
};

static std::vector< Step > history_of( const std::vector< Node >& nodes, int idx )
{
   std::vector< Step > h;
   for( int i = idx; i > 0; i = nodes[ std::size_t( i ) ].parent ) h.push_back( nodes[ std::size_t( i ) ].step );
   std::reverse( h.begin(), h.end() );
   return h;
}

static std::string sample_json( const Config& c, const std::vector< Step >& h, const CState& s, const char* why )
{
   return "{\"why\":\"" + std::string( why ) + "\",\"case\":\"" + vf::jesc( c.head() + ";h=" + hist_str( h ) ) + "\",\"stream\":\"" + vf::jesc( vf::show( c.stream() ) ) + "\",\"final\":\"" + vf::jesc( s.str() ) + "\"}";
}

static bool g_sampled_discard = false, g_sampled_ovf = false, g_sampled_short = false, g_sampled_deep = false, g_sampled_mark = false;

static BfsResult bfs( const Config& c )
{
   BfsResult R;
   std::vector< Node > nodes;
   std::unordered_map< uint64_t, int > seen;
   {
      Ctx x( c );
      Node root;
      root.st = x.cstate();
      nodes.push_back( root );
      seen.emplace( root.st.key(), 0 );
   }
   Config ch = c;
   ch.full = false;
   const uint64_t chash = vf::hstr( ch.head() );  // a state reached in both reader modes is one state
   for( std::size_t idx = 0; idx < nodes.size(); ++idx ) {
      if( ( idx & 15 ) == 0 && vf::out_of_time() ) {
         R.timed_out = true;
         R.fixpoint = false;
         break;
      }
      const Node node = nodes[ idx ];
      R.maxdepth = ( std::max )( R.maxdepth, node.depth );
      if( node.st.ovf ) continue;  // terminal
      if( node.depth >= g_depthcap ) {
         R.fixpoint = false;
         continue;
      }
      const std::vector< Step > hist = history_of( nodes, int( idx ) );
      const int occ = node.st.eb - node.st.cb;
      // alphabet in this state
      std::vector< Step > ops;
      for( int k = 0; k <= g_kmax; ++k ) ops.push_back( Step{ 'r', k, {} } );
      for( int k = 0; k <= g_kmax; ++k ) ops.push_back( Step{ 's', k, {} } );
      for( int k = 0; k <= g_kmax; ++k ) ops.push_back( Step{ 'z', k, {} } );
      ops.push_back( Step{ 'e', 0, {} } );
      for( int j = 1; j <= ( std::min )( g_jmax, occ ); ++j ) {
         const int pos = node.st.bs + node.st.cb;
         ops.push_back( Step{ 'b', j, {} } );
         if( !( c.nl >= pos && c.nl < pos + j ) ) ops.push_back( Step{ 'i', j, {} } );
         if( c.nl == pos + j - 1 ) ops.push_back( Step{ 'l', j, {} } );
      }
      if( node.st.marks.empty() )
         ops.push_back( Step{ 'd', 0, {} } );
      else
         ++R.discard_pruned;
      if( int( node.st.marks.size() ) < g_maxmarks ) ops.push_back( Step{ 'm', 0, {} } );
      if( !node.st.marks.empty() ) {
         ops.push_back( Step{ 't', 0, {} } );
         ops.push_back( Step{ 'x', 0, {} } );
         ops.push_back( Step{ 'f', 0, {} } );
      }
      for( Step op : ops ) {
         // enumerate every legal sequence of reader answers by re-execution (odometer, full read first)
         std::vector< int > script;
         for( ;; ) {
            Ctx x( c );
            x.prefix = &hist;
            for( const Step& h : hist ) plain_step( x, h );
            op.ans = script;
            check_step( x, op );
            ++R.transitions;
            ++R.histories;
            if( x.harness_error ) vf::count( "HARNESS ERROR (illegal move or script mismatch)" );
            // what was actually answered
            Step done = op;
            done.ans.clear();
            for( auto& k : x.env.calls ) done.ans.push_back( int( k.ans ) );
            bool this_short = false;
            for( auto& k : x.env.calls )
               if( k.ans < k.len && k.ans < k.rem ) this_short = true;
            const CState ns = x.cstate();
            const uint64_t key = ns.key();
            if( seen.find( key ) == seen.end() ) {
               seen.emplace( key, int( nodes.size() ) );
               Node nn;
               nn.parent = int( idx );
               nn.step = done;
               nn.depth = node.depth + 1;
               nn.st = ns;
               nn.via_short = this_short;
               nodes.push_back( nn );
               if( ns.ovf ) ++R.overflow_states;
               if( ns.bs > 0 || this_short || ns.ovf ) {
                  ++R.nontrivial;
                  if( vf::st.distinct.size() < 2000000 ) vf::nontrivial( vf::mix( chash, key ) );
               }
               if( !c.full ) {
                  std::vector< Step > h2 = hist;
                  h2.push_back( done );
                  if( !g_sampled_discard && ns.bs > 0 && ns.eb > ns.cb && c.n >= 4 ) {
                     g_sampled_discard = true;
                     vf::sample( sample_json( c, h2, ns, "discard moved unconsumed data" ) );
                  }
                  else if( !g_sampled_ovf && ns.ovf && c.n >= 3 ) {
                     g_sampled_ovf = true;
                     vf::sample( sample_json( c, h2, ns, "history ended by std::overflow_error" ) );
                  }
                  else if( !g_sampled_short && this_short && c.n >= 3 ) {
                     g_sampled_short = true;
                     vf::sample( sample_json( c, h2, ns, "state reached through a short read" ) );
                  }
                  else if( !g_sampled_mark && ns.marks.size() == 2 && ns.bs > 0 && ns.cb + ns.bs > ns.marks[ 1 ] ) {
                     g_sampled_mark = true;
                     vf::sample( sample_json( c, h2, ns, "two marks held behind the cursor after a discard" ) );
                  }
                  else if( !g_sampled_deep && nn.depth >= 12 ) {
                     g_sampled_deep = true;
                     vf::sample( sample_json( c, h2, ns, "first state at depth 12" ) );
                  }
               }
            }
            // next script: decrease the last answer that can still be decreased
            std::vector< int > next = done.ans;
            bool more = false;
            if( !c.full ) {
               while( !next.empty() ) {
                  const std::size_t i = next.size() - 1;
                  const auto& k = x.env.calls[ i ];
                  const int least = ( ( std::min )( k.len, k.rem ) == 0 ) ? 0 : 1;
                  if( next[ i ] > least ) {
                     --next[ i ];
                     more = true;
                     break;
                  }
                  next.pop_back();
               }
            }
            if( !more ) break;
            script = next;
         }
      }
   }
   R.states = long( nodes.size() );
   return R;
}

// ------------------------------------------------------------------------------------------------
static std::vector< Config > configurations( bool thorough )
{
   std::vector< Config > r;
   const int nmax = thorough ? 10 : 8;
   for( int n = 0; n <= nmax; ++n ) {
      std::vector< int > nls{ -1 };
      for( int i = 0; i < n; ++i ) nls.push_back( i );
      for( int nl : nls ) {
         for( int chunk : { 1, 2, 3 } )
            for( int maximum = 1; maximum <= ( thorough ? 5 : 4 ); ++maximum ) {
               Config c;
               c.chunk = chunk;
               c.maximum = maximum;
               c.n = n;
               c.nl = nl;
               r.push_back( c );
            }
         for( int maximum : { 0, 1 } ) {
            Config c;
            c.chunk = 64;
            c.maximum = maximum;
            c.n = n;
            c.nl = nl;
            r.push_back( c );
         }
      }
   }
   return r;
}

int main( int argc, char** argv )
{
   vf::parse_args( argc, argv );
   signal( SIGABRT, on_fatal );
#if !defined( __SANITIZE_ADDRESS__ ) && !C07_CLANG_ASAN
   signal( SIGSEGV, on_fatal );
   signal( SIGBUS, on_fatal );
#endif
   const bool thorough = vf::args.thorough();
   g_kmax = thorough ? 6 : 5;
   g_maxmarks = thorough ? 3 : 2;
   g_jmax = thorough ? 3 : 2;
   if( getenv( "C07_KMAX" ) ) g_kmax = atoi( getenv( "C07_KMAX" ) );  // experiments only
   if( getenv( "C07_MARKS" ) ) g_maxmarks = atoi( getenv( "C07_MARKS" ) );
   if( getenv( "C07_JMAX" ) ) g_jmax = atoi( getenv( "C07_JMAX" ) );

   if( vf::args.replay ) {
      Config c;
      std::vector< Step > h;
      if( !parse_case( vf::args.the_case, c, h ) ) {
         printf( "bad case string\n" );
         vf::st.note = "C07 buffer_input replay: bad case string";
         vf::finish();
         return 0;
      }
      Ctx x( c );
      for( const Step& s : h ) {
         if( x.ovf ) break;
         check_step( x, s );
         const Step& d = x.done.back();
         std::string calls;
         for( auto& k : x.env.calls ) calls += " reader(@" + std::to_string( k.off ) + ",len " + std::to_string( k.len ) + ")->" + std::to_string( k.ans );
         printf( "# %-12s -> %s%s\n", step_name( d ).c_str(), x.cstate().str().c_str(), calls.c_str() );
      }
      if( x.harness_error ) printf( "# HARNESS ERROR: illegal move or reader answer in the case string\n" );
      ++vf::st.evaluations;
      emit_violations();
      vf::st.note = "C07 buffer_input replay of one history";
      vf::finish();
      return 0;
   }

   const std::vector< Config > all = configurations( thorough );
   long any_states = 0, any_trans = 0;
   long full_states = 0, full_trans = 0, full_hist = 0, full_viol = 0;
   int maxdepth = 0;
   bool stop = false;
   for( std::size_t i = 0; i < all.size() && !stop; ++i ) {
      if( int( i % std::size_t( vf::args.nshards ) ) != vf::args.shard ) continue;
      for( int mode = 0; mode < 2 && !stop; ++mode ) {
         Config c = all[ i ];
         c.full = ( mode == 1 );
         const long v0 = g_viol_total;
         const BfsResult R = bfs( c );
         const long dv = g_viol_total - v0;
         const std::string g = c.group();
         if( mode == 0 ) {
            any_states += R.states;
            any_trans += R.transitions;
            vf::st.states += R.states;
            vf::st.transitions += R.transitions;
            vf::st.evaluations += R.histories;
            maxdepth = ( std::max )( maxdepth, R.maxdepth );
            vf::count( "configurations explored (any-reads)" );
            vf::count( ( "any-reads states " + g ).c_str(), R.states );
            vf::count( ( "any-reads transitions " + g ).c_str(), R.transitions );
            long& md = vf::st.counters[ "any-reads max depth " + g ];
            md = ( std::max )( md, long( R.maxdepth ) );
            vf::count( "any-reads states ended by overflow_error", R.overflow_states );
            vf::count( "any-reads non-trivial states (discard moved data / short read / overflow)", R.nontrivial );
            vf::count( "states where discard() was not offered because a mark is held (documented precondition)", R.discard_pruned );
            long& big = vf::st.counters[ "any-reads largest configuration (states)" ];
            big = ( std::max )( big, R.states );
         }
         else {
            full_states += R.states;
            full_trans += R.transitions;
            full_hist += R.histories;
            full_viol += dv;
            vf::count( "configurations explored (full-reads control run)" );
            vf::count( ( "full-reads states " + g ).c_str(), R.states );
            long& md = vf::st.counters[ "full-reads max depth" ];
            md = ( std::max )( md, long( R.maxdepth ) );
         }
         if( !R.fixpoint && !R.timed_out ) vf::count( "configurations stopped by the depth cap" );
         if( R.timed_out ) {
            vf::count( "configurations cut by the deadline" );
            stop = true;
         }
      }
   }
   vf::count( "any-reads max depth (longest minimal history)", maxdepth );
   vf::count( "full-reads states", full_states );
   vf::count( "full-reads transitions", full_trans );
   vf::count( "full-reads histories executed", full_hist );
   vf::count( "full-reads violations (must be 0)", full_viol );
   vf::count( "overflow_errors seen (transitions)", g_overflow_seen );
   vf::count( "overflow_errors while fewer than k bytes remain in the stream (permitted)", g_overflow_at_end_of_stream );
   vf::count( "discard() transitions that moved the window to the buffer start", g_discard_moved );
   vf::count( "discard() no-ops with exactly Chunk consumed bytes (doc says no-op only below Chunk; harmless)", g_discard_noop_at_chunk );
   vf::count( "reader calls", g_reader_calls );
   vf::count( "reader calls answered short", g_reader_short );
   vf::count( "reader asked for 0 bytes", g_zero_len_requests );
   vf::count( "operations that called the reader more than once", g_multi_call_ops );
   vf::count( "short-read cases (config, history) with fewer than k bytes", g_short_read_cases );
   vf::count( "configurations in this tier (all shards)", long( all.size() ) );
   if( vf::st.counters.count( "configurations stopped by the depth cap" ) ) vf::st.exhaustive = false;

   emit_violations();
   vf::st.note = std::string( "C07 buffer_input BFS " ) + ( thorough ? "thorough" : "quick" ) + ": Chunk{1,2,3} x maximum 1.." + ( thorough ? "5" : "4" ) + " + Chunk 64 x maximum{0,1}; stream n=0.." + ( thorough ? "10" : "8" ) + " (byte i = 'a'+i), no LF or one LF at every offset; ops require(k)/size(k)/end(k) k=0.." + std::to_string( g_kmax ) + ", empty, bump/bump_in_this_line/bump_to_next_line(1.." + std::to_string( g_jmax ) + " <= occupied), discard (only without marks), mark/restore/drop/fail on a stack of <=" + std::to_string( g_maxmarks ) + " auto_rewind guards; reader answers: every legal short read (1..min(len,remaining), 0 iff at end) as part of the history, plus a control BFS with full reads only (counters full-reads *); every configuration explored breadth-first to the FIXPOINT of canonical states (cur,end,buffer start,reader offset,marks,overflow), no depth bound (safety cap " + std::to_string( g_depthcap ) + ", reaching it is counted and clears exhaustive); st.states/transitions/evaluations = any-reads run; configuration i -> shard i % nshards";
   vf::finish();
   return 0;
}
