#!/usr/bin/env python3
"""Driver for the PEGTL verification checks (see DESIGN.md).

  python3 verif.py setup
  python3 verif.py check C01 --tier quick|thorough
  python3 verif.py replay replays/C01/<hash>.json
  python3 verif.py baseline-off           (repository test-suite without the hook guard)

A check = one or more harness binaries ("units") compiled from /repo's *current working tree*
(content-hashed cache under build/), run as deterministic shards on all cores, whose
line-protocol output (engine/common.hpp) is aggregated into evidence/<id>.json.
"""
import sys, os, json, hashlib, subprocess, time, re, shutil, concurrent.futures as cf

ROOT = os.path.dirname(os.path.abspath(__file__))
REPO = os.environ.get('VERIF_REPO', '/repo')
BUILD = os.path.join(ROOT, 'build')
OUT = os.environ.get('VERIF_OUT', ROOT)  # where evidence/ and replays/ are written (mutation runs redirect it)
NCPU = int(os.environ.get('VERIF_JOBS', '16'))
CXX = os.environ.get('VERIF_CXX', 'g++')
BASEFLAGS = ['-std=c++17', '-DTAO_PEGTL_VERIF', '-I', os.path.join(REPO, 'include'), '-I', ROOT,
             '-fno-diagnostics-color', '-w']

sys.path.insert(0, ROOT)


def sh(cmd, **kw):
    return subprocess.run(cmd, **kw)


_tree_hash = None


def tree_hash():
    """hash of every file under /repo/include (and src/example for the example grammars)"""
    global _tree_hash
    if _tree_hash is None:
        h = hashlib.sha256()
        for base in ('include', 'src/example/pegtl'):
            top = os.path.join(REPO, base)
            for d, dirs, files in sorted(os.walk(top)):
                dirs.sort()
                for f in sorted(files):
                    p = os.path.join(d, f)
                    h.update(p.encode())
                    with open(p, 'rb') as fh:
                        h.update(fh.read())
        _tree_hash = h.hexdigest()
    return _tree_hash


_engine_hash = None


def engine_hash():
    global _engine_hash
    if _engine_hash is None:
        h = hashlib.sha256()
        for base in ('engine', 'lang', 'checks', 'units', 'buf', 'gen'):
            top = os.path.join(ROOT, base)
            if not os.path.isdir(top):
                continue
            for f in sorted(os.listdir(top)):
                with open(os.path.join(top, f), 'rb') as fh:
                    h.update(f.encode())
                    h.update(fh.read())
        _engine_hash = h.hexdigest()
    return _engine_hash


def build_unit(src, flags=(), text=None, opt='-O1', cxx=None):
    """compile src (path relative to ROOT, or generated `text`) -> binary path; cached by content"""
    cxx = cxx or CXX
    if text is None:
        with open(os.path.join(ROOT, src), 'rb') as fh:
            body = fh.read()
    else:
        body = text.encode()
    h = hashlib.sha256()
    h.update(tree_hash().encode())
    h.update(engine_hash().encode())
    h.update(body)
    h.update(repr((list(flags), opt, cxx)).encode())
    key = h.hexdigest()[:24]
    d = os.path.join(BUILD, 'obj', key)
    binp = os.path.join(d, 'bin')
    if os.path.exists(binp):
        return binp, 0.0, True
    os.makedirs(d, exist_ok=True)
    if text is not None:
        srcp = os.path.join(d, 'gen.cpp')
        with open(srcp, 'w') as fh:
            fh.write(text)
    else:
        srcp = os.path.join(ROOT, src)
    t = time.time()
    cmd = [cxx] + BASEFLAGS + [opt] + list(flags) + [srcp, '-o', binp + '.tmp']
    r = sh(cmd, stdout=subprocess.PIPE, stderr=subprocess.STDOUT, text=True)
    if r.returncode != 0:
        sys.stderr.write('BUILD FAILED: %s\n%s\n' % (' '.join(cmd), r.stdout[-6000:]))
        raise SystemExit(2)
    os.rename(binp + '.tmp', binp)
    return binp, time.time() - t, False


def _big_stack():
    import resource
    try:
        resource.setrlimit(resource.RLIMIT_STACK, (1 << 30, resource.RLIM_INFINITY))
    except Exception:
        pass


def run_shard(binp, tier, i, n, deadline, env=None, extra=()):
    cmd = [binp, tier, str(i), str(n), str(deadline)] + list(extra)
    e = dict(os.environ)
    if env:
        e.update(env)
    r = sh(cmd, stdout=subprocess.PIPE, stderr=subprocess.PIPE, text=True, errors='replace', env=e, preexec_fn=_big_stack)
    return r.returncode, r.stdout, r.stderr


class Agg:
    def __init__(self, pid=None):
        self.pid = pid
        self.evaluations = 0
        self.states = 0
        self.transitions = 0
        self.violations = 0
        self.distinct = 0
        self.exhaustive = True
        self.counters = {}
        self.viol_by_sig = {}
        self.vlines = []  # (unit, sig, detail)
        self.samples = []
        self.notes = []
        self.units = []
        self.broken = []

    def add(self, unit, rc, out, err):
        got = False
        for line in out.splitlines():
            if line.startswith('V\t'):
                _, sig, detail = line.split('\t', 2)
                if self.pid and not sig.startswith(self.pid + '|'):
                    continue  # judged under another property's check
                try:
                    dj = json.loads(detail)
                except Exception:
                    dj = {'raw': detail}
                self.vlines.append((unit, sig, dj))
            elif line.startswith('STAT\t'):
                got = True
                s = json.loads(line[5:])
                self.evaluations += s['evaluations']
                self.states += s['states']
                self.transitions += s['transitions']
                self.violations += s['violations']
                self.distinct += s['distinct_nontrivial']
                self.exhaustive = self.exhaustive and s['exhaustive']
                for k, v in s['counters'].items():
                    self.counters[unit + '.' + k] = self.counters.get(unit + '.' + k, 0) + v
                for k, v in s['viol_by_sig'].items():
                    if self.pid and not k.startswith(self.pid + '|'):
                        continue
                    self.viol_by_sig[k] = self.viol_by_sig.get(k, 0) + v
                for x in s['samples']:
                    if len(self.samples) < 12:
                        self.samples.append({'unit': unit, 'case': x})
                if s.get('note'):
                    self.notes.append(s['note'])
        if rc != 0 or not got:
            self.broken.append('%s: exit %s, stat line %s; stderr: %s' % (unit, rc, got, err[-800:]))


def load_known():
    p = os.path.join(ROOT, 'known_findings.json')
    if not os.path.exists(p):
        return []
    with open(p) as fh:
        return json.load(fh).get('findings', [])


def classify(pid, sig, known):
    """return the known-finding entry (status 'known') whose regex matches this signature"""
    for k in known:
        if k.get('status') != 'known':
            continue
        if pid not in k.get('properties', [k.get('property')]):
            continue
        if re.fullmatch(k['match'], sig):
            return k
    return None


def replay_case(binp, case, tier='quick'):
    r = sh([binp, 'case', case, tier], stdout=subprocess.PIPE, stderr=subprocess.PIPE, text=True, errors='replace', preexec_fn=_big_stack)
    vs = sorted(l for l in r.stdout.splitlines() if l.startswith('V\t'))
    return r.returncode, vs


def finish_check(pid, tier, level, agg, unit_bins, t_start, rule, assumptions, extra_cov=None, min_nontrivial=2):
    known = load_known()
    seed = int(os.environ.get('VERIF_SEED', '0') or 0)
    os.makedirs(os.path.join(OUT, 'evidence'), exist_ok=True)
    rdir = os.path.join(OUT, 'replays', pid)
    shutil.rmtree(rdir, ignore_errors=True)
    os.makedirs(rdir, exist_ok=True)
    new_viol = []
    known_hits = {}
    # every signature that occurred must be classified, not only the printed ones
    for sig, n in sorted(agg.viol_by_sig.items()):
        k = classify(pid, sig, known)
        if k is not None:
            known_hits.setdefault(k['what'], 0)
            known_hits[k['what']] += n
    printed = set()
    nondeterministic = []
    for unit, sig, dj in agg.vlines:
        k = classify(pid, sig, known)
        if k is not None:
            continue
        if sig in printed:
            continue
        printed.add(sig)
        case = dj.get('case', '')
        binp = unit_bins.get(unit)
        # replay twice before reporting: the same case must fail the same way every time
        rep = None
        if binp and case:
            a = replay_case(binp, case, tier)
            b = replay_case(binp, case, tier)
            rep = {'first': a[1][:3], 'identical': a == b, 'reproduced': len(a[1]) > 0}
            if a != b:
                nondeterministic.append(sig)
        hid = hashlib.sha256((unit + sig + case).encode()).hexdigest()[:16]
        path = os.path.join(rdir, hid + '.json')
        with open(path, 'w') as fh:
            json.dump({'property': pid, 'unit': unit, 'signature': sig, 'detail': dj, 'case': case,
                       'replay_check': rep, 'how': 'python3 verif.py replay ' + os.path.relpath(path, ROOT)}, fh, indent=1)
        new_viol.append((sig, path))
    unprinted = [s for s in agg.viol_by_sig if classify(pid, s, known) is None and s not in printed]
    for sig in unprinted:
        hid = hashlib.sha256(sig.encode()).hexdigest()[:16]
        path = os.path.join(rdir, hid + '.json')
        with open(path, 'w') as fh:
            json.dump({'property': pid, 'signature': sig, 'count': agg.viol_by_sig[sig]}, fh)
        new_viol.append((sig, path))

    cov = {
        'evaluations': agg.evaluations,
        'distinct_nontrivial': agg.distinct,
        'rule': rule,
        'samples': agg.samples[:10] if agg.samples else [],
        'states': agg.states,
        'transitions': agg.transitions,
        'traces_validated_against_impl': agg.evaluations,
        'exhaustive': bool(agg.exhaustive),
        'counters': agg.counters,
        'violation_signatures': agg.viol_by_sig,
        'known_findings_hit': known_hits,
        'units': agg.units,
        'notes': agg.notes,
    }
    if extra_cov:
        cov.update(extra_cov)
    ev = {
        'property_id': pid, 'tier': tier, 'seed': seed, 'level': level, 'coverage': cov,
        'assumptions': assumptions, 'wall_s': round(time.time() - t_start, 2),
        'violations': len(new_viol),
    }
    with open(os.path.join(OUT, 'evidence', pid + '.json'), 'w') as fh:
        json.dump(ev, fh, indent=1, sort_keys=True)
    for what, n in sorted(known_hits.items()):
        print('KNOWN-FINDING: property=%s %s (%d executions)' % (pid, what, n))
    rc = 0
    for sig, path in new_viol:
        print('VIOLATION property=%s replay=%s' % (pid, path))
        print('   signature: %s' % sig)
        rc = 1
    if agg.broken:
        for b in agg.broken:
            print('BROKEN: ' + b)
        rc = rc or 3
    if nondeterministic:
        print('BROKEN: non-deterministic replay for ' + ', '.join(nondeterministic))
        rc = rc or 3
    if agg.distinct < min_nontrivial or agg.evaluations < 1:
        print('BROKEN: vacuous exploration (evaluations=%d distinct_nontrivial=%d)' % (agg.evaluations, agg.distinct))
        rc = rc or 3
    print('%s %s: evaluations=%d states=%d transitions=%d distinct_nontrivial=%d exhaustive=%s wall=%.1fs -> %s' % (
        pid, tier, agg.evaluations, agg.states, agg.transitions, agg.distinct, agg.exhaustive, time.time() - t_start,
        'OK' if rc == 0 else 'FAIL'))
    return rc


def run_units(pid, tier, units, deadline):
    """units: list of dict(name, src, flags, shards, opt, extra)"""
    t0 = time.time()
    agg = Agg(pid)
    bins = {}
    with cf.ThreadPoolExecutor(NCPU) as ex:
        futs = {}
        for u in units:
            futs[ex.submit(build_unit, u['src'], u.get('flags', ()), u.get('text'), u.get('opt', '-O1'), u.get('cxx'))] = u
        for f in cf.as_completed(futs):
            u = futs[f]
            binp, dt, cached = f.result()
            bins[u['name']] = binp
            agg.units.append({'unit': u['name'], 'src': u['src'], 'flags': list(u.get('flags', ())), 'build_s': round(dt, 1), 'cached': cached})
    tb = time.time() - t0
    with cf.ThreadPoolExecutor(NCPU) as ex:
        futs = {}
        for u in units:
            n = u.get('shards', NCPU)
            for i in range(n):
                futs[ex.submit(run_shard, bins[u['name']], u.get('tier_arg', tier), i, n, max(5.0, deadline - tb), u.get('env'), u.get('extra', ()))] = u
        for f in cf.as_completed(futs):
            u = futs[f]
            rc, out, err = f.result()
            agg.add(u['name'], rc, out, err)
    return agg, bins


def cmd_check(pid, tier):
    import checks_registry
    spec = checks_registry.CHECKS[pid]
    t0 = time.time()
    deadline = spec.get('deadline', {}).get(tier, 600 if tier == 'quick' else 3000)
    if 'custom' in spec:
        return spec['custom'](pid, tier, deadline)
    units = spec['units'](tier)
    agg, bins = run_units(pid, tier, units, deadline)
    if 'extra' in spec:
        spec['extra'](pid, tier, agg, deadline)
    return finish_check(pid, tier, spec.get('level', 'model_checking'), agg, bins, t0, spec['rule'], spec['assumptions'],
                        min_nontrivial=spec.get('min_nontrivial', 2))


def cmd_replay(path):
    import checks_registry
    with open(os.path.join(ROOT, path) if not os.path.isabs(path) else path) as fh:
        r = json.load(fh)
    pid = r['property']
    spec = checks_registry.CHECKS[pid]
    if 'units' not in spec or 'unit' not in r:
        print('replay: this record carries no executable case; re-run the check')
        print(json.dumps(r, indent=1))
        return 0
    for u in spec['units']('quick') + spec['units']('thorough'):
        if u['name'] == r['unit']:
            binp, _, _ = build_unit(u['src'], u.get('flags', ()), u.get('text'), u.get('opt', '-O1'), u.get('cxx'))
            full = sh([binp, 'case', r['case']], stdout=subprocess.PIPE, stderr=subprocess.STDOUT, text=True, errors='replace', preexec_fn=_big_stack).stdout
            print('\n'.join(l for l in full.splitlines() if not l.startswith('STAT')))
            rc, vs = replay_case(binp, r['case'])
            if vs:
                print('VIOLATION property=%s replay=%s' % (pid, path))
                return 1
            print('replay: no violation on the current tree')
            return 0
    print('unit not found')
    return 2


def cmd_setup():
    os.makedirs(BUILD, exist_ok=True)
    os.makedirs(os.path.join(ROOT, 'evidence'), exist_ok=True)
    os.makedirs(os.path.join(ROOT, 'replays'), exist_ok=True)
    # sanity: compilers and python are present; nothing depending on /repo is built here
    r = sh([CXX, '--version'], stdout=subprocess.PIPE, text=True)
    print(r.stdout.splitlines()[0])
    return 0


def cmd_baseline_off():
    """build + run the repository's own test-suite with the hook guard OFF"""
    bdir = os.path.join(BUILD, 'baseline_off')
    shutil.rmtree(bdir, ignore_errors=True)
    r = sh(['cmake', '-G', 'Ninja', '-S', REPO, '-B', bdir, '-DCMAKE_BUILD_TYPE=Release'], stdout=subprocess.DEVNULL)
    if r.returncode:
        return r.returncode
    r = sh(['cmake', '--build', bdir, '-j', str(NCPU)], stdout=subprocess.DEVNULL)
    if r.returncode:
        return r.returncode
    r = sh(['ctest', '--test-dir', bdir, '-j8', '--timeout', '900'])
    rc = r.returncode
    shutil.rmtree(bdir, ignore_errors=True)
    return rc


def main():
    a = sys.argv[1:]
    if not a:
        print(__doc__)
        return 2
    if a[0] == 'setup':
        return cmd_setup()
    if a[0] == 'check':
        tier = os.environ.get('VERIF_TIER', 'quick')
        if '--tier' in a:
            tier = a[a.index('--tier') + 1]
        return cmd_check(a[1], tier)
    if a[0] == 'replay':
        return cmd_replay(a[1])
    if a[0] == 'baseline-off':
        return cmd_baseline_off()
    print(__doc__)
    return 2


if __name__ == '__main__':
    sys.exit(main())
