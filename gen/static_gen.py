"""G: table -> ordinary static PEGTL grammar source (DESIGN §2.7).

A table is the serialisation used by the table engine:  "OP.a.b.c;OP.a.b.c;..."  (rule i = entry i).
Every rule becomes   struct n<i> : <expr> {};   inside its own namespace, exactly what a user writes.
"""

P = 'tao::pegtl::'

# operator -> C++ expression; {a} {b} {c} are the child rule names
OPEXPR = {
    'ANY': 'any', 'ONE_A': "one< 'a' >", 'NOT_ONE_A': "not_one< 'a' >", 'RANGE_AB': "range< 'a', 'b' >", 'STRING_AB': "string< 'a', 'b' >",
    'EOF_': 'eof', 'SUCCESS': 'success', 'FAILURE': 'failure', 'ONE_B': "one< 'b' >", 'EOL': 'eol', 'EOLF': 'eolf', 'BOF': 'bof', 'BOL': 'bol',
    'BYTES2': 'bytes< 2 >', 'DISCARD': 'discard', 'REQUIRE2': 'require< 2 >', 'EVERYTHING': 'everything', 'ISTRING_AB': "istring< 'a', 'b' >",
    'OPT_ONE_A': "opt< one< 'a' > >", 'AT_ONE_A': "at< one< 'a' > >", 'NOT_AT_ONE_A': "not_at< one< 'a' > >",
    'KEYWORD_AB': "keyword< 'a', 'b' >", 'IDENTIFIER': 'identifier', 'SHEBANG': 'shebang', 'TWO_A': "two< 'a' >", 'THREE_A': "three< 'a' >",
    'ROMM12_A': "rep_one_min_max< 1, 2, 'a' >", 'ROMM02_A': "rep_one_min_max< 0, 2, 'a' >", 'ROMM00_A': "rep_one_min_max< 0, 0, 'a' >",
    'INT_U': 'unsigned_rule', 'INT_S': 'signed_rule', 'INT_MAX7': 'maximum_rule< std::uint8_t, 7 >', 'INT_MAX8': 'maximum_rule< std::uint8_t >', 'RAW': "raw_string< '[', '=', ']' >",
    'PRED_AND': "predicates_and< range< 'a', 'c' >, not_one< 'b' > >", 'PRED_NOT': "predicate_not< one< 'a' > >",
    'STAR': 'star< {a} >', 'PLUS': 'plus< {a} >', 'OPT': 'opt< {a} >', 'AT': 'at< {a} >', 'NOT_AT': 'not_at< {a} >',
    'SEQ1': 'seq< {a} >', 'SOR1': 'sor< {a} >', 'SEQ': 'seq< {a}, {b} >', 'SOR': 'sor< {a}, {b} >', 'SEQ3': 'seq< {a}, {b}, {c} >', 'SOR3': 'sor< {a}, {b}, {c} >',
    'STAR2': 'star< {a}, {b} >', 'PLUS2': 'plus< {a}, {b} >', 'OPT2': 'opt< {a}, {b} >', 'AT2': 'at< {a}, {b} >', 'NOT_AT2': 'not_at< {a}, {b} >',
    'IF_THEN_ELSE': 'if_then_else< {a}, {b}, {c} >', 'IF_MUST': 'if_must< {a}, {b} >', 'OPT_MUST': 'opt_must< {a}, {b} >',
    'IF_MUST_ELSE': 'if_must_else< {a}, {b}, {c} >', 'IF_MUST3': 'if_must< {a}, {b}, {c} >', 'OPT_MUST3': 'opt_must< {a}, {b}, {c} >',
    'MUST': 'must< {a} >', 'MUST2': 'must< {a}, {b} >', 'STAR_MUST': 'star_must< {a}, {b} >', 'STAR_MUST3': 'star_must< {a}, {b}, {c} >',
    'LIST': 'list< {a}, {b} >', 'LIST3': 'list< {a}, {b}, {c} >', 'LIST_MUST': 'list_must< {a}, {b} >', 'LIST_MUST3': 'list_must< {a}, {b}, {c} >',
    'LIST_TAIL': 'list_tail< {a}, {b} >', 'LIST_TAIL3': 'list_tail< {a}, {b}, {c} >', 'MINUS': 'minus< {a}, {b} >',
    'REMATCH': 'rematch< {a}, {b} >', 'REMATCH3': 'rematch< {a}, {b}, {c} >', 'PAD': 'pad< {a}, {b} >', 'PAD3': 'pad< {a}, {b}, {c} >',
    'PAD_OPT': 'pad_opt< {a}, {b} >', 'PARTIAL1': 'partial< {a} >', 'PARTIAL': 'partial< {a}, {b} >', 'PARTIAL3': 'partial< {a}, {b}, {c} >',
    'STAR_PARTIAL1': 'star_partial< {a} >', 'STAR_PARTIAL': 'star_partial< {a}, {b} >', 'STAR_PARTIAL3': 'star_partial< {a}, {b}, {c} >',
    'STRICT1': 'strict< {a} >', 'STRICT': 'strict< {a}, {b} >', 'STRICT3': 'strict< {a}, {b}, {c} >',
    'STAR_STRICT1': 'star_strict< {a} >', 'STAR_STRICT': 'star_strict< {a}, {b} >', 'STAR_STRICT3': 'star_strict< {a}, {b}, {c} >',
    'UNTIL1': 'until< {a} >', 'UNTIL2': 'until< {a}, {b} >', 'UNTIL3': 'until< {a}, {b}, {c} >',
    'REP2_2': 'rep< 2, {a}, {b} >', 'REP_MIN2_2': 'rep_min< 2, {a}, {b} >', 'REP_MIN1_2': 'rep_min< 1, {a}, {b} >', 'REP_MIN0_2': 'rep_min< 0, {a}, {b} >', 'REP_OPT2_2': 'rep_opt< 2, {a}, {b} >', 'RMM12_2': 'rep_min_max< 1, 2, {a}, {b} >',
    'RAISE_OF': 'raise< {a} >', 'RAISE_MSG': "raise_message< 'r', 'm', 's', 'g' >",
    'TC_RF': 'try_catch_return_false< {a} >', 'TC_ANY_RF': 'try_catch_any_return_false< {a} >', 'TC_STD_RF': 'try_catch_std_return_false< {a} >',
    'TC_TYPE_RF': 'try_catch_type_return_false< int, {a} >', 'TC_RN': 'try_catch_raise_nested< {a} >', 'TC_ANY_RN': 'try_catch_any_raise_nested< {a} >',
    'TC_STD_RN': 'try_catch_std_raise_nested< {a} >', 'TC_TYPE_RN': 'try_catch_type_raise_nested< int, {a} >', 'TC_RF2': 'try_catch_return_false< {a}, {b} >',
    'ENABLE': 'enable< {a} >', 'DISABLE': 'disable< {a} >', 'STATE': 'state< verif_state, {a} >',
    'ACTION_ALT': 'action< nothing, {a} >', 'CUSTOM_ANY': '::custom_any< {a} >', 'CONTROL_ALT': 'control< normal, {a} >', 'RAW1': "raw_string< '[', '=', ']', {a} >",
    'SEPARATED_SEQ': 'separated_seq< {a}, {b}, {c} >', 'IF_THEN_ELSE_THEN': 'if_then< {a}, {b} >::else_then< {c} >', 'IF_THEN': 'if_then< {a}, {b} >', 'IF_THEN_CHAIN': 'if_then< {a}, {b} >::else_if_then< {b}, {c} >::else_if_then< {c}, {a} >',
}
for _n, _c in (('SEMI', "';'"), ('RBR', "']'"), ('EQ', "'='"), ('COMMA', "','"), ('GT', "'>'"), ('QUOTE', "'\\''")):
    OPEXPR['STAR_NA_' + _n] = "star< sor< one< %s >, one< 'a' > > >" % _c
    OPEXPR['STAR_SORX_' + _n] = 'star< sor< one< %s >, {a} > >' % _c
for n in range(5):
    OPEXPR['REP%d' % n] = 'rep< %d, {a} >' % n
    OPEXPR['REP_MIN%d' % n] = 'rep_min< %d, {a} >' % n
    OPEXPR['REP_MAX%d' % n] = 'rep_max< %d, {a} >' % n
    if n:
        OPEXPR['REP_OPT%d' % n] = 'rep_opt< %d, {a} >' % n
for i in range(5):
    for j in range(i, 5):
        OPEXPR['RMM%d%d' % (i, j)] = 'rep_min_max< %d, %d, {a} >' % (i, j)

HEADER = '''#include <tao/pegtl.hpp>
#include <tao/pegtl/contrib/analyze.hpp>
#include <tao/pegtl/contrib/if_then.hpp>
#include <tao/pegtl/contrib/integer.hpp>
#include <tao/pegtl/contrib/predicates.hpp>
#include <tao/pegtl/contrib/raw_string.hpp>
#include <tao/pegtl/contrib/rep_one_min_max.hpp>
#include <tao/pegtl/contrib/separated_seq.hpp>
#include <cstdio>
template< typename R > struct custom_any { using rule_t = custom_any; using subs_t = tao::pegtl::type_list< R >;
   template< tao::pegtl::apply_mode A, tao::pegtl::rewind_mode M, template< typename... > class Action, template< typename... > class Control, typename In, typename... St >
   [[nodiscard]] static bool match( In& in, St&&... st ) { return tao::pegtl::seq< R, tao::pegtl::one< ';' > >::template match< A, M, Action, Control >( in, st... ); } };
namespace tao::pegtl { template< typename Name, typename R > struct analyze_traits< Name, ::custom_any< R > > : analyze_any_traits< R > {}; }
struct verif_state { template< typename In, typename... S > explicit verif_state( const In&, S&&... ) {} template< typename In, typename... S > void success( const In&, S&&... ) {} };
'''


def parse_table(ser):
    rules = []
    for r in ser.split(';'):
        op, a, b, c = r.split('.')
        rules.append((op, int(a), int(b), int(c)))
    return rules


def grammar_source(ser, ns):
    """namespace <ns> { using namespace tao::pegtl; struct n0; ... struct n0 : expr {}; ... }"""
    rules = parse_table(ser)
    out = ['namespace %s {' % ns, 'using namespace tao::pegtl;']
    for i in range(len(rules)):
        out.append('struct n%d;' % i)
    for i, (op, a, b, c) in enumerate(rules):
        e = OPEXPR[op].format(a='n%d' % a, b='n%d' % b, c='n%d' % c)
        out.append('struct n%d : %s {};' % (i, e))
    out.append('}')
    return '\n'.join(out)


def analyze_tu(tables):
    """tables: list of (index, ser) -> C++ source printing '<index>\\t<problems>' per grammar"""
    parts = [HEADER]
    for k, ser in tables:
        parts.append(grammar_source(ser, 'g%d' % k))
    parts.append('int main() {')
    for k, ser in tables:
        parts.append('  std::printf( "%d\\t%%zu\\n", tao::pegtl::analyze< g%d::n0 >( -1 ) );' % (k, k))
    parts.append('  return 0; }')
    return '\n'.join(parts)


# ---------------------------------------------------------------- parse observation TUs (T <-> static conformance, C12 leaf optimisation)

PARSE_HEADER = HEADER + '''#include <string>
#include <vector>
#include <cstring>
static std::string g_trace;
static const char* g_b = nullptr;
template< typename Rule > struct act : tao::pegtl::nothing< Rule > {};
template< int I > struct log_act { template< typename AI > static void apply( const AI& in ) { g_trace += "n" + std::to_string( I ) + "[" + std::to_string( in.begin() - g_b ) + "," + std::to_string( in.end() - g_b ) + ")"; } };
static std::string unhex( const char* s ) { std::string o; auto v = []( char c ) { return c <= '9' ? c - '0' : c - 'a' + 10; }; for( ; s[ 0 ] && s[ 1 ]; s += 2 ) o += char( v( s[ 0 ] ) * 16 + v( s[ 1 ] ) ); return o; }
template< typename G > void run( long k, const char* hex, const char* ns ) {
   const std::string s = unhex( hex );
   char* buf = static_cast< char* >( malloc( s.size() + 1 ) );  // exact size, no terminator is read
   memcpy( buf, s.data(), s.size() );
   g_b = buf; g_trace.clear();
   tao::pegtl::memory_input<> in( buf, buf + s.size(), "src" );
   std::string res; long consumed = -1;
   try { const bool ok = tao::pegtl::parse< G, act >( in ); res = ok ? "ok" : "fail"; consumed = long( in.current() - buf ); }
   catch( const tao::pegtl::parse_error& e ) { res = "error:" + std::string( e.message() ) + "@" + std::to_string( e.position_object().byte ); }
   catch( ... ) { res = "other"; }
   // rule names: g<k>::n<I> -> n<I>
   for( size_t q; ( q = res.find( ns ) ) != std::string::npos; ) res.erase( q, strlen( ns ) );
   std::printf( "O\\t%ld\\t%s\\t%s\\t%ld\\t%s\\n", k, hex, res.c_str(), consumed, g_trace.c_str() );
   free( buf );
}
'''


def inline_plan(rules):
    """rules that can be written anonymously inside their single user: referenced exactly once, not rule 0, not on a cycle"""
    n = len(rules)
    ar = lambda op: OPEXPR[op].count('{')
    kids = [[(a, b, c)[i] for i in range(ar(op))] for (op, a, b, c) in rules]
    ref = [0] * n
    for ks in kids:
        for k in ks:
            ref[k] += 1

    def reach(src):
        seen, todo = set(), list(kids[src])
        while todo:
            x = todo.pop()
            if x not in seen:
                seen.add(x)
                todo.extend(kids[x])
        return seen
    return {j for j in range(1, n) if ref[j] == 1 and j not in reach(j)}


def grammar_source_nested(ser, ns):
    rules = parse_table(ser)
    inl = inline_plan(rules)

    def expr(i):
        op, a, b, c = rules[i]
        name = lambda j: expr(j) if j in inl else 'n%d' % j
        return OPEXPR[op].format(a=name(a), b=name(b), c=name(c))
    out = ['namespace %s {' % ns, 'using namespace tao::pegtl;']
    named = [i for i in range(len(rules)) if i not in inl]
    for i in named:
        out.append('struct n%d;' % i)
    for i in named:
        out.append('struct n%d : %s {};' % (i, expr(i)))
    out.append('}')
    return '\n'.join(out), named


def parse_tu(tables, inputs_hex, nested=False):
    """tables: list of (index, ser).  Prints one O line per (table, input) like checks/tconf.cpp."""
    parts = [PARSE_HEADER]
    named_of = {}
    for k, ser in tables:
        if nested:
            src, named = grammar_source_nested(ser, 'g%d' % k)
        else:
            src, named = grammar_source(ser, 'g%d' % k), list(range(len(parse_table(ser))))
        named_of[k] = named
        parts.append(src)
        for i in named:
            parts.append('template<> struct act< g%d::n%d > : log_act< %d > {};' % (k, i, i))
    parts.append('static const char* inputs[] = { %s };' % ', '.join('"%s"' % h for h in inputs_hex))
    parts.append('int main() {')
    for k, ser in tables:
        parts.append('  for( const char* h : inputs ) run< g%d::n0 >( %d, h, "g%d::" );' % (k, k, k))
    parts.append('  return 0; }')
    return '\n'.join(parts), named_of
